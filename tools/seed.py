#!/usr/bin/env python3
"""Seeded-change bookkeeping.

  seed.py collect <id> [<name>]   take the change left by a sub-agent in /tmp/wt-<id>, confirm it
                                  (builds; demo test fails with it and passes without it; existing
                                  tests of the touched packages pass), store it under
                                  /verif/seeded/<name>/ and remove the worktree
  seed.py run <name> [tier]       apply /verif/seeded/<name>/patch.diff to /repo, run the property's
                                  check, undo the patch; records the outcome in meta.json
  seed.py runall [tier]           run every seeded change
"""
import json, os, subprocess, sys, shutil, glob, time

ENV = dict(os.environ, GOFLAGS="-mod=mod", GOPROXY="off", GOSUMDB="off", GOTOOLCHAIN="local")
VERIF = "/verif"


def sh(cmd, cwd=None, timeout=1800):
    p = subprocess.run(cmd, shell=True, cwd=cwd, env=ENV, capture_output=True, text=True, timeout=timeout)
    return p.returncode, p.stdout + p.stderr


def collect(pid, name=None):
    name = name or pid
    wt = f"/tmp/wt-{name}" if os.path.isdir(f"/tmp/wt-{name}") else f"/tmp/wt-{pid}"
    out = os.path.join(VERIF, "seeded", name)
    os.makedirs(out, exist_ok=True)
    # the source change (everything tracked that changed, except contract files)
    rc, diff = sh("git diff -- . ':(exclude)*zz_contracts_verif.go'", cwd=wt)
    if not diff.strip():
        print("no source change in", wt)
        return 1
    open(os.path.join(out, "patch.diff"), "w").write(diff)
    rc, untracked = sh("git ls-files --others --exclude-standard", cwd=wt)
    demos = [f for f in untracked.split() if f.endswith("_test.go")]
    for d in demos:
        dst = os.path.join(out, "demo", d)
        os.makedirs(os.path.dirname(dst), exist_ok=True)
        shutil.copy(os.path.join(wt, d), dst)
    if os.path.exists(os.path.join(wt, "SEEDED.md")):
        shutil.copy(os.path.join(wt, "SEEDED.md"), os.path.join(out, "SEEDED.md"))
    pkgs = sorted({"./" + os.path.dirname(d) for d in demos})
    rc, changed = sh("git diff --name-only -- . ':(exclude)*zz_contracts_verif.go'", cwd=wt)
    touched = sorted({"./" + os.path.dirname(f) for f in changed.split() if f.endswith(".go")})
    log = []
    # 1. with the change
    rc_build, o = sh("go build ./...", cwd=wt)
    log.append(("build with change", rc_build, o[-500:]))
    demo_run = " ".join(pkgs)
    rc_demo_with, o = sh(f"go test -vet=off -count=1 -run 'Seeded|seeded|ZZ|Zz' {demo_run}", cwd=wt)
    log.append(("demo with change", rc_demo_with, o[-1500:]))
    # existing tests of touched packages, without the demo files
    for d in demos:
        os.rename(os.path.join(wt, d), os.path.join(wt, d + ".off"))
    rc_suite, o = sh(f"go test -vet=off -count=1 {' '.join(sorted(set(touched + pkgs)))}", cwd=wt, timeout=3000)
    log.append(("existing tests of touched packages with change", rc_suite, o[-1500:]))
    for d in demos:
        os.rename(os.path.join(wt, d + ".off"), os.path.join(wt, d))
    # 2. without the change
    sh(f"git apply -R {os.path.join(out, 'patch.diff')}", cwd=wt)  # not git stash: the stash is shared by all worktrees
    rc_demo_without, o = sh(f"go test -vet=off -count=1 -run 'Seeded|seeded|ZZ|Zz' {demo_run}", cwd=wt)
    log.append(("demo without change", rc_demo_without, o[-800:]))
    sh(f"git apply {os.path.join(out, 'patch.diff')}", cwd=wt)
    ok = rc_build == 0 and rc_demo_with != 0 and rc_suite == 0 and rc_demo_without == 0
    meta = {
        "property": pid,
        "name": name,
        "confirmed": ok,
        "touched_packages": touched,
        "demo_files": demos,
        "what_i_ran": [{"step": s, "exit": r, "tail": t} for (s, r, t) in log],
        "needs_to_manifest": "see SEEDED.md",
    }
    json.dump(meta, open(os.path.join(out, "meta.json"), "w"), indent=1)
    print(name, "confirmed" if ok else "NOT CONFIRMED", [(s, r) for (s, r, _) in log])
    if ok:
        sh(f"git -C /repo worktree remove --force {wt}")
    return 0 if ok else 1


def run(name, tier="quick", keep=False):
    """Runs the property's check against a scratch worktree of /repo HEAD with the
    seeded patch applied (the same thing as applying it to /repo and undoing it,
    without disturbing /repo). Evidence of these runs goes to a scratch directory."""
    d = os.path.join(VERIF, "seeded", name)
    meta = json.load(open(os.path.join(d, "meta.json")))
    pid = meta["property"]
    wt = f"/tmp/seedrun-{name}"
    sh(f"git -C /repo worktree remove --force {wt}")
    rc, o = sh(f"git -C /repo worktree add -q --detach {wt} HEAD")
    if rc != 0:
        print("cannot create worktree:", o)
        return 2
    evdir = f"/tmp/seedrun-{name}-ev"
    try:
        rc, o = sh(f"git apply {os.path.join(d, 'patch.diff')}", cwd=wt)
        if rc != 0:
            print(name, "patch does not apply:", o.strip()[:300])
            meta.setdefault("runs", []).append({"time": time.strftime("%F %T"), "tier": tier, "result": "patch does not apply"})
            meta["detected"] = None
            json.dump(meta, open(os.path.join(d, "meta.json"), "w"), indent=1)
            return 2
        props = meta.get("also_check", []) + [pid]
        results = {}
        timeout = "-timeout 10" if tier == "quick" else "-timeout 60 -cross"
        for p in dict.fromkeys(props):
            t0 = time.time()
            rc, o = sh(f"bin/govc -repo {wt} -verif {VERIF} -evdir {evdir} {timeout} check {p} {tier}", cwd=VERIF, timeout=3600)
            viol = [l for l in o.splitlines() if l.startswith("VIOLATION")]
            results[p] = {"exit": rc, "violations": [v.replace(evdir, "<scratch>") for v in viol], "wall_s": round(time.time() - t0, 1)}
            print(f"{name}: check {p} {tier} -> exit {rc}; {len(viol)} violation line(s)")
            for v in viol[:6]:
                print("   ", v[:260])
    finally:
        sh(f"git -C /repo worktree remove --force {wt}")
        if not keep:
            shutil.rmtree(evdir, ignore_errors=True)
    def real(vs):
        return [v for v in vs if "contracts#none" not in v and "#vacuity" not in v]
    detected = any(r["exit"] == 1 and real(r["violations"]) for r in results.values())
    meta.setdefault("runs", []).append({"time": time.strftime("%F %T"), "tier": tier, "detected": detected, "results": results})
    meta["runs"] = meta["runs"][-3:]
    meta["detected"] = detected
    json.dump(meta, open(os.path.join(d, "meta.json"), "w"), indent=1)
    return 0 if detected else 1


def main():
    a = sys.argv[1:]
    if a[0] == "collect":
        sys.exit(collect(*a[1:]))
    if a[0] == "run":
        sys.exit(run(*a[1:]))
    if a[0] == "runall":
        tier = a[1] if len(a) > 1 else "quick"
        bad = 0
        for m in sorted(glob.glob(os.path.join(VERIF, "seeded", "*", "meta.json"))):
            if run(os.path.basename(os.path.dirname(m)), tier) != 0:
                bad += 1
        print("seeded changes not detected or not applicable:", bad)
        sys.exit(1 if bad else 0)


if __name__ == "__main__":
    main()
