#!/usr/bin/env python3
"""Regenerates /verif/MANIFEST.json from tools/claims.json (kept by hand)."""
import json, os, subprocess
root = os.path.dirname(os.path.dirname(os.path.abspath(__file__)))
claims = json.load(open(os.path.join(root, "tools", "claims.json")))
props = [json.loads(l) for l in open(os.path.join(root, "properties.jsonl"))]
hooks_commits = subprocess.run(["git", "-C", "/repo", "log", "--format=%H %s"], capture_output=True, text=True).stdout.splitlines()
hook_commits = [l.split()[0] for l in hooks_commits if l.split(" ", 1)[1].startswith("verif:")]
checks, na = [], []
for p in props:
    pid = p["id"]
    c = claims.get(pid)
    if not c or not c.get("claimed"):
        na.append({"property_id": pid, "reason": (c or {}).get("reason", "not claimed yet: contracts for this property are not complete")})
        continue
    checks.append({
        "property_id": pid,
        "quick_cmd": "./check %s quick" % pid,
        "thorough_cmd": "./check %s thorough" % pid,
        "evidence_file": "/verif/evidence/%s.json" % pid,
        "replay_cmd_template": "./check replay {path}",
        "engine": "govc",
        "level_claimed": {"category": "proof", "text": c["text"], "design_ref": "DESIGN.md section 7, " + pid},
        "level_note": c["note"],
        "technique": "contracts on the real functions + weakest-precondition VCs over go/ssa + SMT (z3/cvc5)",
    })
m = {
    "version": 1,
    "setup_cmd": "cd govc && GOFLAGS=-mod=mod GOPROXY=off GOSUMDB=off GOTOOLCHAIN=local go build -o ../bin/govc .",
    "hooks": {
        "guard": "verif",
        "enable": "go/packages loads /repo with -tags verif; the guarded files (zz_contracts_verif.go) are comment-only contract files, no executable code",
        "baseline_off_cmd": "cd /repo && GOFLAGS=-mod=mod go test -json -vet=off -count=1 -timeout 25m ./...",
        "source_commits": hook_commits,
        "add_only": True,
    },
    "engines": [{"name": "govc", "path": "/verif/govc", "serves_properties": [c["property_id"] for c in checks],
                 "kind_free_text": "verification-condition generator for Go (go/ssa NaiveForm, exact int/bv integer encodings, heap as typed maps, loop invariants, modular calls) discharging to z3 5.1 / z3 4.8 / cvc5 1.0; counterexamples replayed on the real code with go test -overlay"}],
    "checks": checks,
    "not_applicable": na,
    "notes": "Contracts live in /repo/**/zz_contracts_verif.go (build tag verif) and /verif/spec/*.spec. See DESIGN.md.",
}
json.dump(m, open(os.path.join(root, "MANIFEST.json"), "w"), indent=1)
print("claimed:", [c["property_id"] for c in checks])
