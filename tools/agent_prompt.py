#!/usr/bin/env python3
import json, sys
pid = sys.argv[1]
name = sys.argv[2] if len(sys.argv) > 2 else pid
avoid = ""
if name != pid:
    import glob, re
    taken = []
    for d in glob.glob(f'/verif/seeded/{pid}-*/patch.diff'):
        for l in open(d):
            m = re.match(r'^@@.*@@ (.*)$', l)
            if m and m.group(1).strip():
                taken.append(m.group(1).strip()[:90])
    if taken:
        avoid = " An earlier tester already changed the following places; choose a DIFFERENT mechanism of the property, in different functions: " + "; ".join(sorted(set(taken))) + "."
for l in open('/verif/properties.jsonl'):
    p = json.loads(l)
    if p['id'] == pid:
        break
print(f"""You are helping test a verification effort for the Go project enfein/mieru (a socks5/HTTP proxy with its own encrypted session protocol). You have your own scratch git worktree of the repository at /tmp/wt-{name} (work ONLY there; never touch /repo or /verif; do not look under /verif).

Property ({pid}): {p['title']}
Statement: {p['statement']}
Quantifier: {p['quantifier']['text']}

Your task: produce ONE realistic change to the Go source of the project (in /tmp/wt-{name}) that BREAKS this property, while (a) the project still compiles, (b) the project's existing test suite for the touched packages still passes unchanged, and (c) the breakage needs something specific to manifest - an unusual input, a boundary value, a particular multi-step sequence, a particular interleaving, or two cooperating sites that each look fine alone - NOT something ordinary use would expose at once. It should look like a plausible developer mistake or 'optimisation' (off-by-one, wrong comparison, missing check on one branch, swapped order, wrong constant at a boundary, stale cache use, etc.), a few lines at most.{avoid} Do not edit or add files named zz_contracts_verif.go and do not edit existing tests.

Also produce a demonstration: a Go test file (a new _test.go file in the relevant package, any name starting with zz_seeded_) that FAILS with your change applied and PASSES on the unmodified code.

Environment: no network. Every shell command must start with: export GOFLAGS=-mod=mod GOPROXY=off GOSUMDB=off GOTOOLCHAIN=local
Build: cd /tmp/wt-{name} && go build ./... ; test a package: go test -vet=off -count=1 ./pkg/<name>/  (the full suite takes several minutes; run at least the packages you touched and their direct users).

Steps: read the relevant code (anchors: {', '.join(p['anchors']['files'][:8])}), pick the change, write the demonstration test, verify: (1) with the change: build ok, existing tests of touched packages pass, demo test fails; (2) without the change (save the change with `git diff > /tmp/wt-{name}.patch` and undo it with `git apply -R`; do NOT use git stash - the stash is shared with other worktrees): demo test passes. Leave the worktree with the change APPLIED and the demo test present, and write /tmp/wt-{name}/SEEDED.md containing: the property id, a description of the change, what is needed for it to manifest, the exact commands you ran and their results. Your final answer should summarise the change in 5 lines or less.""")
