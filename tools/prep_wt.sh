#!/bin/bash
# usage: prep_wt.sh <id> : creates /tmp/wt-<id> from /repo HEAD without the contract files
set -e
id="${1:?id}"
wt="/tmp/wt-${id}"
[ -d "$wt" ] || git -C /repo worktree add -q --detach "$wt" HEAD
cd "$wt"
for f in $(git ls-files | grep zz_contracts_verif.go); do
  git update-index --skip-worktree "$f"
  rm -f "./${f:?}"
done
git status --short | head -3
