#!/usr/bin/env python3
"""Must-fail self-test run by the thorough tier: every seeded change kept for the
property (seeded/<id>-*/patch.diff) is applied to a scratch copy of /repo's working
tree and the property's quick check is run there; the outcome is added to the
evidence file under coverage.mutation_selftest. A change that is not detected is
reported (SELFTEST-MISS) but is not a violation of the property on the real tree,
so the exit status stays 0. Scratch copies live under a fresh temporary directory
and are removed before returning."""
import argparse, glob, json, os, re, shutil, subprocess, sys, tempfile, time

ROOT = os.path.dirname(os.path.dirname(os.path.abspath(__file__)))
REPO = os.environ.get("VERIF_REPO", "/repo")
ENV = dict(os.environ, GOFLAGS="-mod=mod", GOPROXY="off", GOSUMDB="off", GOTOOLCHAIN="local")


def sh(cmd, cwd=None, timeout=1800):
    p = subprocess.run(cmd, shell=True, cwd=cwd, env=ENV, capture_output=True, text=True, timeout=timeout)
    return p.returncode, p.stdout + p.stderr


def main():
    ap = argparse.ArgumentParser()
    ap.add_argument("--property", required=True)
    ap.add_argument("--quiet", action="store_true")
    a = ap.parse_args()
    pid = a.property
    seeds = sorted(glob.glob(os.path.join(ROOT, "seeded", pid + "-*", "patch.diff")))
    if not seeds:
        return 0
    tmp = tempfile.mkdtemp(prefix="verif-selftest-")
    results = []
    try:
        for patch in seeds:
            name = os.path.basename(os.path.dirname(patch))
            wt = os.path.join(tmp, name)
            rc, o = sh(f"rsync -a --exclude .git {REPO}/ {wt}/")
            if rc != 0:
                results.append({"change": name, "result": "copy failed"})
                continue
            rc, o = sh(f"patch -p1 --no-backup-if-mismatch -s < {patch}", cwd=wt)
            if rc != 0:
                results.append({"change": name, "result": "patch does not apply to the current tree"})
                shutil.rmtree(wt, ignore_errors=True)
                continue
            ev = os.path.join(tmp, name + "-ev")
            t0 = time.time()
            rc, o = sh(f"{ROOT}/bin/govc -repo {wt} -verif {ROOT} -evdir {ev} -timeout 10 check {pid} quick", cwd=ROOT, timeout=3600)
            obs = []
            for l in o.splitlines():
                if l.startswith("VIOLATION") and "contracts#none" not in l and "#vacuity" not in l:
                    m = re.search(r"obligation=(\S+)", l)
                    if m:
                        obs.append(m.group(1))
            results.append({"change": name, "result": "detected" if (rc == 1 and obs) else "NOT detected",
                            "failing_obligations": obs[:6], "wall_s": round(time.time() - t0, 1)})
            shutil.rmtree(wt, ignore_errors=True)
            shutil.rmtree(ev, ignore_errors=True)
    finally:
        shutil.rmtree(tmp, ignore_errors=True)
    evp = os.path.join(ROOT, "evidence", pid + ".json")
    try:
        ev = json.load(open(evp))
        ev.setdefault("coverage", {})["mutation_selftest"] = results
        json.dump(ev, open(evp, "w"), indent=1)
    except Exception as e:  # evidence stays as the check wrote it
        print("selftest: could not extend evidence:", e)
    for r in results:
        if r["result"] != "detected":
            print(f"SELFTEST-MISS property={pid} change={r['change']} ({r['result']})")
    if not a.quiet:
        print(json.dumps(results, indent=1))
    det = sum(1 for r in results if r["result"] == "detected")
    print(f"{pid} selftest: {det}/{len(results)} seeded changes detected")
    return 0


if __name__ == "__main__":
    sys.exit(main())
