package main

// Contracts: structured `//@` comments, parsed from the guarded comment-only
// files zz_contracts_verif.go in /repo and from /verif/spec/*.spec.

import (
	"fmt"
	"go/ast"
	"go/parser"
	"go/token"
	"os"
	"path/filepath"
	"regexp"
	"strconv"
	"strings"
)

type Clause struct {
	Text  string
	Expr  ast.Expr
	Src   string   // file:line
	Cond  ast.Expr // modifies ... when <cond>
	Props []string // [C15 C01] prefix: the clause is an obligation of these properties only
}

// SiteAssert: `assert_at "<source text>": <expr over locals>` - checked (and then
// assumed) right before every statement of the function whose source line contains
// the text. Keyed by text, not by line number.
type SiteAssert struct {
	Text   string
	Cl     *Clause
	Ghost  bool // ghost_at: the clause `ghost(g) == expr` is a ghost assignment executed at the site
	Hint   bool // use_at / unfold_at: the clause is a hint (lemma instance or unfolding) applied at the site
	Site   string // assert_call only: restrict to call sites whose source line contains this text
	Assume bool // callee name written with a trailing "!": the checked fact is also assumed afterwards (a stepping stone for later obligations)
}

type LoopSpec struct {
	Ord        int
	Invariants []*Clause
	Decreases  *Clause
	Modifies   []*Clause
	NoMods     bool      // `modifies nothing`: the loop writes no pre-existing heap location
	Hints      []*Clause // unfold/use hints applied at the preserve check
}

type Contract struct {
	Key         string // <pkgpath>.<Func> or <pkgpath>.<Recv>.<Method>
	PkgPath     string
	Name        string
	RecvType    string
	RecvName    string
	RecvPtr     bool
	ParamNames  []string
	ResNames    []string
	Decl        *ast.FuncDecl
	Requires    []*Clause
	Ensures     []*Clause
	Modifies    []*Clause
	Loops       map[int]*LoopSpec
	Hints       []*Clause
	ModeSet     bool
	Mode        Mode
	MayPanic    bool
	Trusted     bool // assumed contract: body is not verified (extern or stated reason)
	TrustWhy    string
	Abstracts   string
	Inline      bool // always inline instead of using the contract at call sites
	Props       []string
	Src         string
	Ghost       []string
	NoFrame     bool
	Cases       []*Clause     // case split: the function is verified once under each case assumption
	SiteAsserts []*SiteAssert // assertions at the statements whose source line contains a given text
	AssumedEnsures []*Clause  // ensures_assumed: postconditions callers may use although the function's verification does not establish them (listed as assumptions)
	CheckPre    []string      // with posts_only: callees whose preconditions are nevertheless obligations here
	Sets        []*Clause     // sets ghost(g) = expr: ghost assignments made at entry (the event the function stands for)
	Preserves   []string      // with noframe: heap maps (T.f, T.*) the function never writes (checked syntactically)
	CallAssumes []*SiteAssert // assume_call <callee>: facts assumed about a callee's results at its call sites
	CallAsserts []*SiteAssert // assert_call <callee>: assertions about the arguments at every call of a callee
	Witnesses   []*Clause     // candidate witnesses (over locals) for exists() in postconditions
	VolatileInv []*Clause     // volatile_inv expr(v): assumed of every value read from a volatile atomic pointer
	Volatile    []string      // field suffixes (e.g. ".state.v") that other goroutines may write at any time
	PostsOnly   bool          // only the postconditions (and loop invariants) are claimed, not the safety obligations
	Partial     bool          // paths that reach a construct outside the subset are abandoned; every postcondition must be vacuous there
	WrapsSigned bool          // signed arithmetic of this function wraps by design (no overflow obligations)
	IntOnly     bool          // use the contract only from int-mode callers; bv-mode callers inline the body
}

type SpecFunc struct {
	Name     string
	Params   []*ast.Field
	PNames   []string
	PTypes   []ast.Expr
	RType    ast.Expr
	Body     ast.Expr
	Rec      bool
	Uninterp bool
	Macro    bool
	Pkg      string    // package path in whose scope the parameter types are resolved
	Axioms   []*Clause // assumed facts about an uninterpreted function (trusted base)
	Src      string
}

type Lemma struct {
	Name     string
	PNames   []string
	PTypes   []ast.Expr
	Mode     Mode
	Requires []*Clause
	Ensures  []*Clause
	Hints    []*Clause // unfold f(args), use lemma(args), induct(args) decreases e
	Src      string
	Props    []string
	PkgPath  string
}

type StructCheck struct {
	Kind  string // writers, callers, const, calls-dominated ...
	Text  string
	Src   string
	Props []string
	Pkg   string
}

type GlobalInv struct {
	Pkg  string
	Name string
	Cl   *Clause
}

type ContractDB struct {
	Funcs      map[string]*Contract
	Specs      map[string]*SpecFunc
	Lemmas     map[string]*Lemma
	LemmaOrder []string
	Structs    []*StructCheck
	Globals    []*GlobalInv
	Files      []string
	Consts     map[string]string // spec constants name -> expr text
	Ghosts     map[string]string // ghost variable name -> type text
}

func newContractDB() *ContractDB {
	return &ContractDB{Funcs: map[string]*Contract{}, Specs: map[string]*SpecFunc{}, Lemmas: map[string]*Lemma{}, Consts: map[string]string{}, Ghosts: map[string]string{}}
}

var keywordRe = regexp.MustCompile(`^(package|axiom|func|requires|ensures|modifies|mode|loop|invariant|decreases|hint|unfold|use|induct|may_panic|trusted|abstracts|inline|intonly|partial|posts_only|assert_at|use_at|unfold_at|step_at|ghost_at|ghost_call|assert_call|assume_call|preserves|sets|volatile_inv|check_pre|ensures_assumed|wraps_signed|volatile|witness|cases|property|spec|lemma|struct|global|ghost|noframe|const)\b`)

// stripComment removes a trailing `// ...` that is outside string literals
func stripComment(s string) string {
	inStr := false
	for i := 0; i+1 < len(s); i++ {
		if s[i] == '"' {
			inStr = !inStr
		}
		if !inStr && s[i] == '/' && s[i+1] == '/' {
			return strings.TrimSpace(s[:i])
		}
	}
	return strings.TrimSpace(s)
}

type rawLine struct {
	text string
	src  string
}

// readAnnotLines extracts annotation lines. In .go files they are `//@` lines;
// in .spec files every non-comment line.
func readAnnotLines(path string) ([]rawLine, string, error) {
	data, err := os.ReadFile(path)
	if err != nil {
		return nil, "", err
	}
	var out []rawLine
	pkg := ""
	isGo := strings.HasSuffix(path, ".go")
	for i, ln := range strings.Split(string(data), "\n") {
		t := strings.TrimSpace(ln)
		src := fmt.Sprintf("%s:%d", path, i+1)
		if isGo {
			if strings.HasPrefix(t, "package ") {
				pkg = strings.TrimSpace(strings.TrimPrefix(t, "package "))
				continue
			}
			if !strings.HasPrefix(t, "//@") {
				continue
			}
			t = strings.TrimPrefix(t, "//@")
		} else {
			if strings.HasPrefix(t, "#") || strings.HasPrefix(t, "//") {
				continue
			}
		}
		t = stripComment(t)
		if t == "" {
			continue
		}
		out = append(out, rawLine{t, src})
	}
	return out, pkg, nil
}

// group lines into statements: a keyword line followed by continuation lines
func groupStatements(lines []rawLine) []rawLine {
	var out []rawLine
	for _, l := range lines {
		if keywordRe.MatchString(l.text) || len(out) == 0 {
			out = append(out, l)
		} else {
			out[len(out)-1].text += " " + l.text
		}
	}
	return out
}

func splitKeyword(s string) (string, string) {
	i := 0
	for i < len(s) && (s[i] == '_' || s[i] >= 'a' && s[i] <= 'z' || s[i] >= 'A' && s[i] <= 'Z') {
		i++
	}
	return s[:i], strings.TrimSpace(s[i:])
}

func parseClause(text, src string) (*Clause, error) {
	var props []string
	if strings.HasPrefix(text, "[") {
		if i := strings.Index(text, "]"); i > 0 {
			ok := true
			for _, f := range strings.Fields(text[1:i]) {
				if len(f) < 3 || f[0] != 'C' {
					ok = false
				}
			}
			if ok {
				props = strings.Fields(text[1:i])
				text = strings.TrimSpace(text[i+1:])
			}
		}
	}
	if props != nil {
		c, err := parseClause(text, src)
		if err != nil {
			return nil, err
		}
		c.Props = props
		return c, nil
	}
	rw := rewriteImplies(text)
	x, err := parser.ParseExpr(rw)
	if err != nil {
		return nil, fmt.Errorf("%s: cannot parse %q: %v", src, text, err)
	}
	return &Clause{Text: text, Expr: x, Src: src}, nil
}

// rewriteImplies turns `a ==> b` into implies(a, b) and `a <==> b` into iff(a, b)
func rewriteImplies(s string) string {
	parts := splitTop(s, ",")
	for i, p := range parts {
		parts[i] = rewriteOne(p)
	}
	return strings.Join(parts, ",")
}

func rewriteOne(s string) string {
	if i := findTop(s, "<==>"); i >= 0 {
		return "iff(" + rewriteOne(s[:i]) + ", " + rewriteOne(s[i+4:]) + ")"
	}
	if i := findTopImplies(s); i >= 0 {
		return "implies(" + rewriteOne(s[:i]) + ", " + rewriteOne(s[i+3:]) + ")"
	}
	// descend into groups
	var b strings.Builder
	depth := 0
	start := -1
	inStr := false
	for i := 0; i < len(s); i++ {
		c := s[i]
		if c == '"' {
			inStr = !inStr
		}
		if inStr {
			if depth == 0 {
				b.WriteByte(c)
			}
			continue
		}
		switch c {
		case '(', '[':
			if depth == 0 {
				b.WriteByte(c)
				start = i + 1
			}
			depth++
		case ')', ']':
			depth--
			if depth == 0 {
				b.WriteString(rewriteImplies(s[start:i]))
				b.WriteByte(c)
			}
		default:
			if depth == 0 {
				b.WriteByte(c)
			}
		}
	}
	return b.String()
}

func findTop(s, pat string) int {
	depth := 0
	inStr := false
	for i := 0; i < len(s); i++ {
		c := s[i]
		if c == '"' {
			inStr = !inStr
		}
		if inStr {
			continue
		}
		switch c {
		case '(', '[', '{':
			depth++
		case ')', ']', '}':
			depth--
		}
		if depth == 0 && strings.HasPrefix(s[i:], pat) {
			return i
		}
	}
	return -1
}

func findTopImplies(s string) int {
	depth := 0
	inStr := false
	for i := 0; i < len(s); i++ {
		c := s[i]
		if c == '"' {
			inStr = !inStr
		}
		if inStr {
			continue
		}
		switch c {
		case '(', '[', '{':
			depth++
		case ')', ']', '}':
			depth--
		}
		if depth == 0 && strings.HasPrefix(s[i:], "==>") && (i == 0 || s[i-1] != '<') {
			return i
		}
	}
	return -1
}

func splitTop(s, sep string) []string {
	var out []string
	depth := 0
	last := 0
	inStr := false
	for i := 0; i < len(s); i++ {
		c := s[i]
		if c == '"' {
			inStr = !inStr
		}
		if inStr {
			continue
		}
		switch c {
		case '(', '[', '{':
			depth++
		case ')', ']', '}':
			depth--
		}
		if depth == 0 && strings.HasPrefix(s[i:], sep) {
			out = append(out, s[last:i])
			last = i + len(sep)
			i += len(sep) - 1
		}
	}
	out = append(out, s[last:])
	return out
}

func parseFuncSig(sig string) (*ast.FuncDecl, error) {
	src := "package p\nfunc " + sig + " {}\n"
	f, err := parser.ParseFile(token.NewFileSet(), "", src, 0)
	if err != nil {
		return nil, err
	}
	for _, d := range f.Decls {
		if fd, ok := d.(*ast.FuncDecl); ok {
			return fd, nil
		}
	}
	return nil, fmt.Errorf("no func decl")
}

func fieldNames(fl *ast.FieldList) ([]string, []ast.Expr) {
	var names []string
	var typs []ast.Expr
	if fl == nil {
		return nil, nil
	}
	for _, f := range fl.List {
		if len(f.Names) == 0 {
			names = append(names, "")
			typs = append(typs, f.Type)
		}
		for _, n := range f.Names {
			names = append(names, n.Name)
			typs = append(typs, f.Type)
		}
	}
	return names, typs
}

// LoadFile parses one contract/spec file. pkgPath is the import path that
// unqualified function names refer to ("" for .spec files that give full paths
// via `package <path>` lines).
func (db *ContractDB) LoadFile(path, pkgPath string, trusted bool) error {
	lines, _, err := readAnnotLines(path)
	if err != nil {
		return err
	}
	db.Files = append(db.Files, path)
	stmts := groupStatements(lines)
	var cur *Contract
	var curLemma *Lemma
	var curLoop *LoopSpec
	var lastSpec *SpecFunc
	curPkg := pkgPath
	for _, st := range stmts {
		kw, rest := splitKeyword(st.text)
		switch kw {
		case "package":
			curPkg = rest
			cur, curLemma, curLoop = nil, nil, nil
		case "func":
			fd, err := parseFuncSig(rest)
			if err != nil {
				return fmt.Errorf("%s: bad signature %q: %v", st.src, rest, err)
			}
			c := &Contract{PkgPath: curPkg, Name: fd.Name.Name, Decl: fd, Loops: map[int]*LoopSpec{}, Src: st.src, Trusted: trusted}
			if fd.Recv != nil && len(fd.Recv.List) == 1 {
				r := fd.Recv.List[0]
				if len(r.Names) > 0 {
					c.RecvName = r.Names[0].Name
				}
				t := r.Type
				if s, ok := t.(*ast.StarExpr); ok {
					c.RecvPtr = true
					t = s.X
				}
				switch tt := t.(type) {
				case *ast.Ident:
					c.RecvType = tt.Name
				case *ast.SelectorExpr:
					c.RecvType = tt.Sel.Name
				case *ast.IndexExpr:
					if id, ok := tt.X.(*ast.Ident); ok {
						c.RecvType = id.Name
					}
				}
			}
			c.ParamNames, _ = fieldNames(fd.Type.Params)
			c.ResNames, _ = fieldNames(fd.Type.Results)
			c.Key = curPkg + "."
			if c.RecvType != "" {
				c.Key += c.RecvType + "."
			}
			c.Key += c.Name
			if _, dup := db.Funcs[c.Key]; dup {
				return fmt.Errorf("%s: duplicate contract for %s", st.src, c.Key)
			}
			db.Funcs[c.Key] = c
			cur, curLemma, curLoop = c, nil, nil
		case "lemma":
			fd, err := parseFuncSig(rest)
			if err != nil {
				return fmt.Errorf("%s: bad lemma signature %q: %v", st.src, rest, err)
			}
			l := &Lemma{Name: fd.Name.Name, Src: st.src, Mode: ModeBV, PkgPath: curPkg}
			l.PNames, l.PTypes = fieldNames(fd.Type.Params)
			db.Lemmas[l.Name] = l
			db.LemmaOrder = append(db.LemmaOrder, l.Name)
			cur, curLemma, curLoop = nil, l, nil
		case "spec":
			// spec [rec|uninterp] name(params) T = body
			sf := &SpecFunc{Src: st.src, Pkg: curPkg}
			r := rest
			if strings.HasPrefix(r, "rec ") {
				sf.Rec = true
				r = strings.TrimSpace(r[4:])
			}
			if strings.HasPrefix(r, "uninterp ") {
				sf.Uninterp = true
				r = strings.TrimSpace(r[9:])
			}
			if strings.HasPrefix(r, "macro ") {
				sf.Macro = true
				r = strings.TrimSpace(r[6:])
			}
			sigPart, body := r, ""
			if i := findTop(r, " = "); i >= 0 {
				sigPart, body = r[:i], strings.TrimSpace(r[i+3:])
			}
			fd, err := parseFuncSig(sigPart)
			if err != nil {
				return fmt.Errorf("%s: bad spec signature %q: %v", st.src, sigPart, err)
			}
			sf.Name = fd.Name.Name
			sf.PNames, sf.PTypes = fieldNames(fd.Type.Params)
			if fd.Type.Results != nil && len(fd.Type.Results.List) == 1 {
				sf.RType = fd.Type.Results.List[0].Type
			}
			if body != "" {
				cl, err := parseClause(body, st.src)
				if err != nil {
					return err
				}
				sf.Body = cl.Expr
			} else {
				sf.Uninterp = true
			}
			db.Specs[sf.Name] = sf
			lastSpec = sf
			cur, curLemma, curLoop = nil, nil, nil
		case "axiom":
			if lastSpec == nil {
				return fmt.Errorf("%s: axiom without a preceding spec", st.src)
			}
			cl, err := parseClause(rest, st.src)
			if err != nil {
				return err
			}
			lastSpec.Axioms = append(lastSpec.Axioms, cl)
		case "struct":
			db.Structs = append(db.Structs, &StructCheck{Text: rest, Src: st.src, Pkg: curPkg})
			cur, curLemma = nil, nil // a following `property` clause belongs to this check
		case "global":
			// global name: invariant-expr over v
			i := strings.Index(rest, ":")
			if i < 0 {
				return fmt.Errorf("%s: global needs name: expr", st.src)
			}
			cl, err := parseClause(strings.TrimSpace(rest[i+1:]), st.src)
			if err != nil {
				return err
			}
			db.Globals = append(db.Globals, &GlobalInv{Pkg: curPkg, Name: strings.TrimSpace(rest[:i]), Cl: cl})
		case "const":
			i := strings.Index(rest, "=")
			if i < 0 {
				return fmt.Errorf("%s: const needs name = expr", st.src)
			}
			db.Consts[strings.TrimSpace(rest[:i])] = strings.TrimSpace(rest[i+1:])
		default:
			if cur == nil && curLemma == nil {
				if kw == "ghost" {
					f := strings.Fields(rest)
					if len(f) != 2 {
						return fmt.Errorf("%s: ghost <name> <type>", st.src)
					}
					db.Ghosts[f[0]] = f[1]
					continue
				}
				if kw == "property" && len(db.Structs) > 0 {
					db.Structs[len(db.Structs)-1].Props = strings.Fields(rest)
					continue
				}
				return fmt.Errorf("%s: clause %q outside a func/lemma", st.src, st.text)
			}
			if curLemma != nil {
				if err := db.lemmaClause(curLemma, kw, rest, st.src); err != nil {
					return err
				}
				continue
			}
			switch kw {
			case "requires", "ensures", "modifies", "invariant", "decreases", "hint", "unfold", "use":
				var texts []string
				if kw == "modifies" {
					texts = splitTop(rest, ",")
				} else {
					texts = []string{rest}
				}
				for _, tx := range texts {
					tx = strings.TrimSpace(tx)
					if tx == "" {
						continue
					}
					if kw == "modifies" && tx == "nothing" {
						if curLoop != nil {
							curLoop.NoMods = true
						}
						continue
					}
					var cl *Clause
					if kw == "modifies" {
						cl, err = parseModifies(tx, st.src)
					} else if kw == "unfold" || kw == "use" {
						cl, err = parseClause(tx, st.src)
						if cl != nil {
							cl.Text = kw + " " + cl.Text
						}
					} else {
						cl, err = parseClause(tx, st.src)
					}
					if err != nil {
						return err
					}
					switch kw {
					case "requires":
						cur.Requires = append(cur.Requires, cl)
					case "ensures":
						cur.Ensures = append(cur.Ensures, cl)
					case "modifies":
						if curLoop != nil {
							curLoop.Modifies = append(curLoop.Modifies, cl)
						} else {
							cur.Modifies = append(cur.Modifies, cl)
						}
					case "invariant":
						if curLoop == nil {
							return fmt.Errorf("%s: invariant outside loop", st.src)
						}
						curLoop.Invariants = append(curLoop.Invariants, cl)
					case "decreases":
						if curLoop == nil {
							return fmt.Errorf("%s: decreases outside loop", st.src)
						}
						curLoop.Decreases = cl
					case "hint", "unfold", "use":
						if curLoop != nil {
							curLoop.Hints = append(curLoop.Hints, cl)
						} else {
							cur.Hints = append(cur.Hints, cl)
						}
					}
				}
			case "loop":
				n, err := strconv.Atoi(strings.TrimSuffix(strings.TrimSpace(rest), ":"))
				if err != nil {
					return fmt.Errorf("%s: bad loop ordinal %q", st.src, rest)
				}
				curLoop = &LoopSpec{Ord: n}
				cur.Loops[n] = curLoop
			case "mode":
				cur.ModeSet = true
				if rest == "bv" {
					cur.Mode = ModeBV
				} else if rest == "int" {
					cur.Mode = ModeInt
				} else {
					return fmt.Errorf("%s: bad mode %q", st.src, rest)
				}
			case "may_panic":
				cur.MayPanic = true
			case "trusted":
				cur.Trusted = true
				cur.TrustWhy = rest
			case "abstracts":
				cur.Abstracts = rest
			case "inline":
				cur.Inline = true
			case "noframe":
				cur.NoFrame = true
			case "intonly":
				cur.IntOnly = true
			case "wraps_signed":
				cur.WrapsSigned = true
			case "ghost_at":
				// ghost_at "text": ghost(g) = expr   - ghost assignment before the statement(s) on matching lines
				r := strings.TrimSpace(rest)
				if !strings.HasPrefix(r, "\"") {
					return fmt.Errorf("%s: ghost_at needs a quoted source text", st.src)
				}
				j := strings.Index(r[1:], "\"")
				if j < 0 {
					return fmt.Errorf("%s: ghost_at: unterminated text", st.src)
				}
				text := r[1 : 1+j]
				r = strings.TrimPrefix(strings.TrimSpace(r[2+j:]), ":")
				cl, err := parseClause(strings.Replace(strings.TrimSpace(r), "=", "==", 1), st.src)
				if err != nil {
					return err
				}
				cur.SiteAsserts = append(cur.SiteAsserts, &SiteAssert{Text: text, Cl: cl, Ghost: true})
			case "use_at", "unfold_at", "step_at":
				r := strings.TrimSpace(rest)
				if !strings.HasPrefix(r, "\"") {
					return fmt.Errorf("%s: %s needs a quoted source text", st.src, kw)
				}
				j := strings.Index(r[1:], "\"")
				if j < 0 {
					return fmt.Errorf("%s: %s: unterminated text", st.src, kw)
				}
				text := r[1 : 1+j]
				r = strings.TrimPrefix(strings.TrimSpace(r[2+j:]), ":")
				cl, err := parseClause(strings.TrimSpace(r), st.src)
				if err != nil {
					return err
				}
				if kw != "step_at" { // step_at: a stepping stone - checked at the site, then assumed
					cl.Text = strings.TrimSuffix(kw, "_at") + " " + cl.Text
				}
				cur.SiteAsserts = append(cur.SiteAsserts, &SiteAssert{Text: text, Cl: cl, Hint: true})
			case "assert_at":
				// assert_at "text": expr
				r := strings.TrimSpace(rest)
				if !strings.HasPrefix(r, "\"") {
					return fmt.Errorf("%s: assert_at needs a quoted source text", st.src)
				}
				j := strings.Index(r[1:], "\"")
				if j < 0 {
					return fmt.Errorf("%s: assert_at: unterminated text", st.src)
				}
				text := r[1 : 1+j]
				r = strings.TrimSpace(r[2+j:])
				r = strings.TrimPrefix(r, ":")
				cl, err := parseClause(strings.TrimSpace(r), st.src)
				if err != nil {
					return err
				}
				cur.SiteAsserts = append(cur.SiteAsserts, &SiteAssert{Text: text, Cl: cl})
			case "ensures_assumed":
				cl, err := parseClause(rest, st.src)
				if err != nil {
					return err
				}
				cur.AssumedEnsures = append(cur.AssumedEnsures, cl)
			case "check_pre":
				for _, f := range strings.Split(rest, ",") {
					if f = strings.TrimSpace(f); f != "" {
						cur.CheckPre = append(cur.CheckPre, f)
					}
				}
			case "volatile_inv":
				cl, err := parseClause(rest, st.src)
				if err != nil {
					return err
				}
				cur.VolatileInv = append(cur.VolatileInv, cl)
			case "sets":
				// sets ghost(g) = expr   (parsed as the comparison ghost(g) == expr)
				cl, err := parseClause(strings.Replace(rest, "=", "==", 1), st.src)
				if err != nil {
					return err
				}
				cur.Sets = append(cur.Sets, cl)
			case "preserves":
				for _, f := range strings.Split(rest, ",") {
					if f = strings.TrimSpace(f); f != "" {
						cur.Preserves = append(cur.Preserves, f)
					}
				}
			case "assume_call":
				parts := strings.SplitN(rest, ":", 2)
				if len(parts) != 2 {
					return fmt.Errorf("%s: assume_call needs `<callee>: <expr>`", st.src)
				}
				cl, err := parseClause(strings.TrimSpace(parts[1]), st.src)
				if err != nil {
					return err
				}
				cur.CallAssumes = append(cur.CallAssumes, &SiteAssert{Text: strings.TrimSpace(parts[0]), Cl: cl})
			case "ghost_call":
				// ghost_call T.m: ghost(g) = expr(result0.., arg0.., caller locals)  - ghost assignment
				// after every call of T.m in this function (bookkeeping of what a callee returned)
				parts := strings.SplitN(rest, ":", 2)
				if len(parts) != 2 {
					return fmt.Errorf("%s: ghost_call needs `<callee>: ghost(g) = <expr>`", st.src)
				}
				cl, err := parseClause(strings.Replace(strings.TrimSpace(parts[1]), "=", "==", 1), st.src)
				if err != nil {
					return err
				}
				cur.CallAssumes = append(cur.CallAssumes, &SiteAssert{Text: strings.TrimSpace(parts[0]), Cl: cl, Ghost: true})
			case "assert_call":
				// assert_call T.m: expr over recv, arg0, arg1, ... and the caller's locals
				// optional site filter: assert_call T.m @"source text": expr  - only call sites on lines containing the text
				site := ""
				if i := strings.Index(rest, " @\""); i >= 0 && i < strings.Index(rest+":", ":") {
					if j := strings.Index(rest[i+3:], "\""); j >= 0 {
						site = rest[i+3 : i+3+j]
						rest = rest[:i] + rest[i+3+j+1:]
					}
				}
				parts := strings.SplitN(rest, ":", 2)
				if len(parts) != 2 {
					return fmt.Errorf("%s: assert_call needs `<callee>: <expr>`", st.src)
				}
				cl, err := parseClause(strings.TrimSpace(parts[1]), st.src)
				if err != nil {
					return err
				}
				name := strings.TrimSpace(parts[0])
				sa := &SiteAssert{Text: strings.TrimSuffix(name, "!"), Cl: cl, Assume: strings.HasSuffix(name, "!"), Site: site}
				cur.CallAsserts = append(cur.CallAsserts, sa)
			case "partial":
				cur.Partial = true
			case "posts_only":
				cur.PostsOnly = true
			case "volatile":
				for _, f := range strings.Split(rest, ",") {
					if f = strings.TrimSpace(f); f != "" {
						cur.Volatile = append(cur.Volatile, f)
					}
				}
			case "cases":
				for _, tx := range splitTop(rest, "|||") {
					cl, err := parseClause(strings.TrimSpace(tx), st.src)
					if err != nil {
						return err
					}
					cur.Cases = append(cur.Cases, cl)
				}
			case "witness":
				cl, err := parseClause(rest, st.src)
				if err != nil {
					return err
				}
				cur.Witnesses = append(cur.Witnesses, cl)
			case "property":
				cur.Props = append(cur.Props, strings.Fields(rest)...)
			case "ghost":
				cur.Ghost = append(cur.Ghost, rest)
			default:
				return fmt.Errorf("%s: unknown clause %q", st.src, kw)
			}
		}
	}
	return nil
}

func parseModifies(tx, src string) (*Clause, error) {
	// forms: p.f   p.*   s[..]   s[lo:hi]   *p   m[..]   ghost name   (optionally: ... when cond)
	var cond ast.Expr
	if i := strings.Index(tx, " when "); i >= 0 {
		cl, err := parseClause(strings.TrimSpace(tx[i+6:]), src)
		if err != nil {
			return nil, err
		}
		cond = cl.Expr
		tx = strings.TrimSpace(tx[:i])
	}
	if cond != nil {
		c, err := parseModifies(tx, src)
		if err != nil {
			return nil, err
		}
		c.Cond = cond
		return c, nil
	}
	t := strings.ReplaceAll(tx, "[..]", "[:]")
	if strings.HasSuffix(t, ".*") {
		t = "allfields(" + strings.TrimSuffix(t, ".*") + ")"
	}
	x, err := parser.ParseExpr(t)
	if err != nil {
		return nil, fmt.Errorf("%s: cannot parse modifies %q: %v", src, tx, err)
	}
	return &Clause{Text: tx, Expr: x, Src: src}, nil
}

func (db *ContractDB) lemmaClause(l *Lemma, kw, rest, src string) error {
	switch kw {
	case "mode":
		if rest == "int" {
			l.Mode = ModeInt
		} else {
			l.Mode = ModeBV
		}
		return nil
	case "property":
		l.Props = append(l.Props, strings.Fields(rest)...)
		return nil
	case "requires", "ensures":
		cl, err := parseClause(rest, src)
		if err != nil {
			return err
		}
		if kw == "requires" {
			l.Requires = append(l.Requires, cl)
		} else {
			l.Ensures = append(l.Ensures, cl)
		}
		return nil
	case "unfold", "use", "induct", "hint":
		if kw == "induct" {
			if strings.HasPrefix(rest, "(") {
				rest = "induct" + rest
			} else {
				rest = "induct(" + rest + ")"
			}
		}
		cl, err := parseClause(rest, src)
		if err != nil {
			return err
		}
		cl.Text = kw + " " + cl.Text
		l.Hints = append(l.Hints, cl)
		return nil
	}
	return fmt.Errorf("%s: unknown lemma clause %q", src, kw)
}

// LoadRepoContracts loads every zz_contracts_verif.go under root.
func (db *ContractDB) LoadRepoContracts(root, modPath string) error {
	return filepath.Walk(root, func(p string, info os.FileInfo, err error) error {
		if err != nil {
			return nil
		}
		if info.IsDir() {
			if info.Name() == ".git" {
				return filepath.SkipDir
			}
			return nil
		}
		if info.Name() != "zz_contracts_verif.go" {
			return nil
		}
		rel, _ := filepath.Rel(root, filepath.Dir(p))
		pkgPath := modPath
		if rel != "." {
			pkgPath = modPath + "/" + filepath.ToSlash(rel)
		}
		return db.LoadFile(p, pkgPath, false)
	})
}
