package main

// Replay of solver counterexamples against the real code. A generated
// in-package test (injected with `go test -overlay`, nothing is written to
// /repo) builds the inputs from the model, calls the real function and prints
// the observables; the violation is confirmed when the real observables agree
// with the model's (or, for a safety obligation, when the real call panics).

import (
	"context"
	"encoding/json"
	"fmt"
	"go/types"
	"math/big"
	"os"
	"os/exec"
	"path/filepath"
	"sort"
	"strings"
	"time"

	"golang.org/x/tools/go/ssa"
)

type modelTerm struct {
	term    string
	key     string // e.g. "param:0:.len", "elem:1:5", "result:0", "field:0:.seq", "post:0:.seq"
	declIdx int
}

type replayInfo struct {
	fn    *ssa.Function
	terms []modelTerm
	mode  Mode
}

type replayResult struct {
	modelText string
	log       string
	confirmed bool
	hasInput  bool
}

const replayElems = 48

func (vc *VC) addModelTerm(term, key string) {
	vc.modelTerms = append(vc.modelTerms, modelTerm{term: term, key: key, declIdx: len(vc.decls)})
}

// registerInputs records, for every parameter, the model terms needed to
// rebuild a concrete input.
func (e *Engine) registerInputs(fn *ssa.Function, params []SV, st *State) {
	for i, p := range fn.Params {
		e.registerValue(fmt.Sprintf("param:%d", i), p.Type(), params[i], st, 0)
	}
}

func (e *Engine) registerValue(key string, t types.Type, v SV, st *State, depth int) {
	vc := e.vc
	lv := e.leaves(t)
	ts := e.flatten(t, v)
	for i, l := range lv {
		vc.addModelTerm(ts[i], key+":"+l.Suffix)
	}
	if isTimeType(t) {
		return
	}
	if b, ok := t.Underlying().(*types.Basic); ok && b.Info()&types.IsString != 0 {
		id := ts[0]
		vc.addModelTerm(fmt.Sprintf("(strlen %s)", id), key+":strlen")
		for k := 0; k < replayElems; k++ {
			vc.addModelTerm(fmt.Sprintf("(strat %s %d)", id, k), fmt.Sprintf("%s:strat:%d", key, k))
		}
		return
	}
	switch u := t.Underlying().(type) {
	case *types.Slice:
		s := v.(*SliceSV)
		el := u.Elem()
		if _, _, ok := intInfo(el); ok {
			l := e.leaves(el)[0]
			name, srt := e.backingMap(el, l)
			h := e.heapGet(st, name, srt)
			for k := 0; k < replayElems; k++ {
				vc.addModelTerm(fmt.Sprintf("(select (select %s %s) %s)", h, s.Base, e.idxAdd(s.Off, e.idxc(int64(k)))), fmt.Sprintf("%s:elem:%d", key, k))
			}
		}
	case *types.Pointer:
		if depth > 0 {
			return
		}
		if stt, ok := u.Elem().Underlying().(*types.Struct); ok {
			_ = stt
			func() {
				defer func() { recover() }()
				ref := ts[0]
				obj := e.loadRaw(st, &PtrSV{Kind: pkHeap, Ref: ref, Root: u.Elem()}, u.Elem())
				e.registerStructFields(key+":deref", u.Elem(), obj, st)
			}()
		}
	case *types.Struct:
		e.registerStructFields(key, t, v, st)
	}
}

func (e *Engine) registerStructFields(key string, t types.Type, v SV, st *State) {
	u := t.Underlying().(*types.Struct)
	sv := v.(*StructSV)
	for i := 0; i < u.NumFields(); i++ {
		f := u.Field(i)
		if f.Name() == "_" {
			continue
		}
		fk := key + "." + f.Name()
		if isTimeType(f.Type()) {
			continue
		}
		switch ft := f.Type().Underlying().(type) {
		case *types.Struct:
			e.registerStructFields(fk, f.Type(), sv.F[i], st)
		case *types.Pointer:
			e.vc.addModelTerm(e.flatten(f.Type(), sv.F[i])[0], fk+":")
			if _, isS := ft.Elem().Underlying().(*types.Struct); isS && strings.Count(key, ":deref") < 2 && isRepoType(ft.Elem()) {
				func() {
					defer func() { recover() }()
					ref := e.flatten(f.Type(), sv.F[i])[0]
					obj := e.loadRaw(st, &PtrSV{Kind: pkHeap, Ref: ref, Root: ft.Elem()}, ft.Elem())
					e.registerStructFields(fk+":deref", ft.Elem(), obj, st)
				}()
			}
		case *types.Slice:
			_ = ft
			e.registerValue(fk, f.Type(), sv.F[i], st, 1)
		default:
			for j, l := range e.leaves(f.Type()) {
				e.vc.addModelTerm(e.flatten(f.Type(), sv.F[i])[j], fk+":"+l.Suffix)
			}
		}
	}
}

// ---- model parsing ---------------------------------------------------------------

func parseModelValues(out string) []string {
	// returns the value s-expressions of a (get-value ...) response in order
	i := strings.Index(out, "((")
	if i < 0 {
		return nil
	}
	s := out[i:]
	// tokenise the outer list into (term value) pairs
	var vals []string
	depth := 0
	start := -1
	for j := 0; j < len(s); j++ {
		switch s[j] {
		case '(':
			depth++
			if depth == 2 {
				start = j
			}
		case ')':
			if depth == 2 && start >= 0 {
				pair := s[start+1 : j]
				vals = append(vals, lastSexpr(pair))
				start = -1
			}
			depth--
			if depth == 0 {
				return vals
			}
		}
	}
	return vals
}

func lastSexpr(pair string) string {
	pair = strings.TrimSpace(pair)
	if strings.HasSuffix(pair, ")") {
		d := 0
		for k := len(pair) - 1; k >= 0; k-- {
			if pair[k] == ')' {
				d++
			} else if pair[k] == '(' {
				d--
				if d == 0 {
					return pair[k:]
				}
			}
		}
	}
	k := strings.LastIndexAny(pair, " \n\t")
	return strings.TrimSpace(pair[k+1:])
}

func smtValueToBig(v string) (*big.Int, bool) {
	v = strings.TrimSpace(v)
	switch {
	case v == "true":
		return big.NewInt(1), true
	case v == "false":
		return big.NewInt(0), true
	case strings.HasPrefix(v, "#x"):
		b, ok := new(big.Int).SetString(v[2:], 16)
		return b, ok
	case strings.HasPrefix(v, "#b"):
		b, ok := new(big.Int).SetString(v[2:], 2)
		return b, ok
	case strings.HasPrefix(v, "(_ bv"):
		f := strings.Fields(v[5:])
		b, ok := new(big.Int).SetString(f[0], 10)
		return b, ok
	case strings.HasPrefix(v, "(-"):
		inner := strings.TrimSpace(strings.TrimSuffix(strings.TrimPrefix(v, "(-"), ")"))
		b, ok := new(big.Int).SetString(inner, 10)
		if ok {
			b.Neg(b)
		}
		return b, ok
	}
	b, ok := new(big.Int).SetString(v, 10)
	return b, ok
}

// ---- test generation -----------------------------------------------------------------

type goGen struct {
	pkg     *types.Package
	imports map[string]string
}

func (g *goGen) qual(p *types.Package) string {
	if p == g.pkg {
		return ""
	}
	g.imports[p.Path()] = p.Name()
	return p.Name()
}

func (g *goGen) typeStr(t types.Type) string { return types.TypeString(t, g.qual) }

func signedVal(b *big.Int, w int, signed bool) *big.Int {
	v := new(big.Int).Mod(b, pow2(w))
	if signed && v.Cmp(pow2(w-1)) >= 0 {
		v.Sub(v, pow2(w))
	}
	return v
}

func (e *Engine) replay(o *Obligation, propID string) replayResult {
	vc := o.vc
	info := vc.replay
	res := replayResult{}
	if info == nil || info.fn == nil {
		res.modelText = "(no replay template: not a function obligation)"
		res.log = "not replayed"
		return res
	}
	// collect model values
	var terms []modelTerm
	for _, mt := range vc.modelTerms {
		if mt.declIdx <= o.NDecl {
			terms = append(terms, mt)
		}
	}
	vals := parseModelValues(o.Model)
	if len(vals) != len(terms) {
		res.modelText = fmt.Sprintf("(model has %d values for %d terms; raw output kept below)", len(vals), len(terms))
		res.log = "not replayed"
		return res
	}
	model := map[string]*big.Int{}
	var mlines []string
	for i, mt := range terms {
		if b, ok := smtValueToBig(vals[i]); ok {
			model[mt.key] = b
			if !strings.Contains(mt.key, ":elem:") || b.Sign() != 0 {
				mlines = append(mlines, fmt.Sprintf("%s = %s", mt.key, b.String()))
			}
		}
	}
	sort.Strings(mlines)
	res.modelText = strings.Join(mlines, "\n")
	fn := info.fn
	if fn.Pkg == nil {
		res.log = "not replayed (no package)"
		return res
	}
	if tmpl, ok := e.replayTemplate(fn); ok {
		return e.replayWithTemplate(o, fn, tmpl, model, res)
	}
	g := &goGen{pkg: fn.Pkg.Pkg, imports: map[string]string{}}
	var body strings.Builder
	var argNames []string
	supported := true
	var post []string
	for i, p := range fn.Params {
		name := fmt.Sprintf("a%d", i)
		code, ok := e.genValue(g, fmt.Sprintf("param:%d", i), p.Type(), model, name)
		if !ok {
			supported = false
			break
		}
		body.WriteString(code)
		argNames = append(argNames, name)
		if pt, isP := p.Type().Underlying().(*types.Pointer); isP {
			if _, isS := pt.Elem().Underlying().(*types.Struct); isS {
				post = append(post, fmt.Sprintf("\tfmt.Printf(\"REPLAY-POST %d: %%+v\\n\", *%s)\n", i, name))
			}
		}
	}
	if !supported {
		res.log = "no replay template for this signature (input shape not constructible from the model)"
		return res
	}
	res.hasInput = true
	// call expression
	var call string
	sig := fn.Signature
	if sig.Recv() != nil {
		call = fmt.Sprintf("%s.%s(%s)", argNames[0], fn.Name(), strings.Join(argNames[1:], ", "))
	} else {
		call = fmt.Sprintf("%s(%s)", fn.Name(), strings.Join(argNames, ", "))
		if fn.TypeParams().Len() > 0 || fn.Origin() != nil {
			call = fmt.Sprintf("%s(%s)", fn.Origin().Name(), strings.Join(argNames, ", "))
		}
	}
	nres := sig.Results().Len()
	var rnames []string
	for i := 0; i < nres; i++ {
		rnames = append(rnames, fmt.Sprintf("r%d", i))
	}
	var src strings.Builder
	src.WriteString("package " + g.pkg.Name() + "\n\nimport (\n\t\"fmt\"\n\t\"testing\"\n")
	var callLine string
	if nres > 0 {
		callLine = strings.Join(rnames, ", ") + " := " + call
	} else {
		callLine = call
	}
	var prints strings.Builder
	for i := 0; i < nres; i++ {
		rt := sig.Results().At(i).Type()
		switch rt.Underlying().(type) {
		case *types.Interface:
			prints.WriteString(fmt.Sprintf("\tfmt.Printf(\"REPLAY-RESULT %d: nil=%%v %%v\\n\", r%d == nil, r%d)\n", i, i, i))
		case *types.Slice:
			prints.WriteString(fmt.Sprintf("\tfmt.Printf(\"REPLAY-RESULT %d: len=%%d %%v\\n\", len(r%d), r%d)\n", i, i, i))
		default:
			prints.WriteString(fmt.Sprintf("\tfmt.Printf(\"REPLAY-RESULT %d: %%v\\n\", r%d)\n", i, i))
		}
	}
	bodyStr := body.String()
	imps := make([]string, 0, len(g.imports))
	for path, name := range g.imports {
		imps = append(imps, fmt.Sprintf("\t%s %q\n", name, path))
	}
	sort.Strings(imps)
	for _, im := range imps {
		src.WriteString(im)
	}
	src.WriteString(")\n\nfunc TestZZReplayVerif(t *testing.T) {\n")
	src.WriteString("\tdefer func() {\n\t\tif r := recover(); r != nil {\n\t\t\tfmt.Printf(\"REPLAY-PANIC: %v\\n\", r)\n\t\t}\n\t}()\n")
	src.WriteString(bodyStr)
	src.WriteString("\t" + callLine + "\n")
	src.WriteString(prints.String())
	for _, p := range post {
		src.WriteString(p)
	}
	src.WriteString("}\n")

	dir, err := os.MkdirTemp("", "govc-replay")
	if err != nil {
		res.log = "cannot create scratch dir"
		return res
	}
	defer os.RemoveAll(dir)
	testFile := filepath.Join(dir, "replay_test.go")
	os.WriteFile(testFile, []byte(src.String()), 0o644)
	pkgDir := filepath.Join(e.repoRoot, strings.TrimPrefix(strings.TrimPrefix(g.pkg.Path(), modPath), "/"))
	ov := map[string]map[string]string{"Replace": {filepath.Join(pkgDir, "zz_replay_verif_test.go"): testFile}}
	ovb, _ := json.Marshal(ov)
	ovFile := filepath.Join(dir, "ov.json")
	os.WriteFile(ovFile, ovb, 0o644)
	ctx, cancel := context.WithTimeout(context.Background(), 180*time.Second)
	defer cancel()
	cmd := exec.CommandContext(ctx, "go", "test", "-overlay", ovFile, "-vet=off", "-count=1", "-timeout", "60s", "-run", "^TestZZReplayVerif$", "-v", ".")
	cmd.Dir = pkgDir
	cmd.Env = append(os.Environ(), "GOFLAGS=-mod=mod", "GOPROXY=off", "GOSUMDB=off", "GOTOOLCHAIN=local")
	out, _ := cmd.CombinedOutput()
	text := string(out)
	var keep []string
	for _, l := range strings.Split(text, "\n") {
		if strings.HasPrefix(l, "REPLAY-") || strings.Contains(l, "panic") || strings.Contains(l, "FAIL") || strings.Contains(l, "cannot") || strings.Contains(l, "undefined") || strings.Contains(l, ".go:") {
			keep = append(keep, l)
		}
	}
	res.log = "generated test:\n" + indent(src.String(), "    ") + "\noutput:\n" + indent(strings.Join(keep, "\n"), "    ")
	// confirmation
	panicked := strings.Contains(text, "REPLAY-PANIC:") || strings.Contains(text, "panic:")
	if strings.Contains(o.Kind, "safety:") {
		if panicked {
			res.confirmed = true
			res.log += "\nverdict: the real code panics on the model's input"
		} else {
			res.log += "\nverdict: the real code does not panic on this input (model not confirmed: some callee contract is too weak to exclude it)"
		}
		return res
	}
	if panicked {
		res.log += "\nverdict: the real code panics on the model's input"
		return res
	}
	// compare results with the model
	agree := true
	compared := 0
	for i := 0; i < nres; i++ {
		rt := sig.Results().At(i).Type()
		prefix := fmt.Sprintf("REPLAY-RESULT %d: ", i)
		line := ""
		for _, l := range strings.Split(text, "\n") {
			if strings.HasPrefix(l, prefix) {
				line = strings.TrimPrefix(l, prefix)
			}
		}
		key := fmt.Sprintf("result:%d:", i)
		if nres == 1 {
			key = "result:0:"
		}
		if w, s, ok := intInfo(rt); ok {
			if mv, has := model[key]; has {
				compared++
				if signedVal(mv, w, s).String() != strings.TrimSpace(line) {
					agree = false
				}
			}
		} else if b, isB := rt.Underlying().(*types.Basic); isB && b.Info()&types.IsBoolean != 0 {
			if mv, has := model[key]; has {
				compared++
				if (mv.Sign() != 0) != (strings.TrimSpace(line) == "true") {
					agree = false
				}
			}
		} else if _, isI := rt.Underlying().(*types.Interface); isI {
			if mv, has := model[key+".tag"]; has {
				compared++
				if (mv.Sign() == 0) != strings.HasPrefix(line, "nil=true") {
					agree = false
				}
			}
		} else if _, isS := rt.Underlying().(*types.Slice); isS {
			if mv, has := model[key+".len"]; has {
				compared++
				if !strings.HasPrefix(line, fmt.Sprintf("len=%s ", signedVal(mv, 64, true).String())) {
					agree = false
				}
			}
		}
	}
	if compared > 0 && agree {
		res.confirmed = true
		res.log += "\nverdict: the real results equal the model's results, which violate the clause"
	} else if compared == 0 {
		res.log += "\nverdict: inputs replayed; no comparable result in the model"
	} else {
		res.log += "\nverdict: real results differ from the model's (model not confirmed: a callee contract or an abstraction is too weak)"
	}
	return res
}

// genValue emits Go code that declares `name` with the value described by the model.
func (e *Engine) genValue(g *goGen, key string, t types.Type, model map[string]*big.Int, name string) (string, bool) {
	ts := g.typeStr(t)
	if isTimeType(t) {
		v, has := model[key+":"]
		if !has {
			return "", false
		}
		sec := new(big.Int).Div(v, big.NewInt(1000000000))
		ns := new(big.Int).Mod(v, big.NewInt(1000000000))
		return fmt.Sprintf("\t%s := time.Unix(%s, %s)\n", name, sec.String(), ns.String()), true
	}
	switch u := t.Underlying().(type) {
	case *types.Basic:
		if w, s, ok := intInfo(u); ok {
			v, has := model[key+":"]
			if !has {
				v = big.NewInt(0)
			}
			return fmt.Sprintf("\t%s := %s(%s)\n", name, ts, signedVal(v, w, s).String()), true
		}
		if u.Info()&types.IsBoolean != 0 {
			v := model[key+":"]
			return fmt.Sprintf("\t%s := %s(%v)\n", name, ts, v != nil && v.Sign() != 0), true
		}
		if u.Info()&types.IsString != 0 {
			n := model[key+":strlen"]
			if n == nil || n.Sign() < 0 || n.Int64() > replayElems {
				return "", false
			}
			var bs []string
			for k := int64(0); k < n.Int64(); k++ {
				v := model[fmt.Sprintf("%s:strat:%d", key, k)]
				if v == nil {
					v = big.NewInt(0)
				}
				bs = append(bs, signedVal(v, 8, false).String())
			}
			return fmt.Sprintf("\t%s := %s([]byte{%s})\n", name, ts, strings.Join(bs, ", ")), true
		}
	case *types.Slice:
		w, s, ok := intInfo(u.Elem())
		if !ok {
			return "", false
		}
		n := model[key+":.len"]
		base := model[key+":.base"]
		if n == nil {
			return "", false
		}
		if base != nil && base.Sign() == 0 {
			return fmt.Sprintf("\tvar %s %s\n", name, ts), true
		}
		ln := signedVal(n, 64, true).Int64()
		if ln < 0 || ln > 1<<20 {
			return "", false
		}
		var b strings.Builder
		b.WriteString(fmt.Sprintf("\t%s := make(%s, %d)\n", name, ts, ln))
		for k := int64(0); k < ln && k < replayElems; k++ {
			if v, has := model[fmt.Sprintf("%s:elem:%d", key, k)]; has && v.Sign() != 0 {
				b.WriteString(fmt.Sprintf("\t%s[%d] = %s\n", name, k, signedVal(v, w, s).String()))
			}
		}
		return b.String(), true
	case *types.Pointer:
		st, ok := u.Elem().Underlying().(*types.Struct)
		if !ok {
			return "", false
		}
		ref := model[key+":"]
		if ref != nil && ref.Sign() == 0 {
			return fmt.Sprintf("\tvar %s %s\n", name, ts), true
		}
		var b strings.Builder
		b.WriteString(fmt.Sprintf("\t%s := &%s{}\n", name, g.typeStr(u.Elem())))
		code, ok := e.genStructFields(g, key+":deref", u.Elem(), st, model, name)
		if !ok {
			return "", false
		}
		b.WriteString(code)
		return b.String(), true
	case *types.Struct:
		var b strings.Builder
		b.WriteString(fmt.Sprintf("\tvar %s %s\n", name, ts))
		code, ok := e.genStructFields(g, key, t, u, model, name)
		if !ok {
			return "", false
		}
		b.WriteString(code)
		return b.String(), true
	}
	return "", false
}

func (e *Engine) genStructFields(g *goGen, key string, t types.Type, st *types.Struct, model map[string]*big.Int, name string) (string, bool) {
	var b strings.Builder
	for i := 0; i < st.NumFields(); i++ {
		f := st.Field(i)
		if f.Name() == "_" {
			continue
		}
		if !f.Exported() && f.Pkg() != g.pkg {
			continue // cannot set; leave zero
		}
		fk := key + "." + f.Name()
		switch ft := f.Type().Underlying().(type) {
		case *types.Struct:
			code, ok := e.genStructFields(g, fk, f.Type(), ft, model, name+"."+f.Name())
			if !ok {
				return "", false
			}
			b.WriteString(code)
		case *types.Basic:
			if w, s, ok := intInfo(ft); ok {
				if v, has := model[fk+":"]; has {
					b.WriteString(fmt.Sprintf("\t%s.%s = %s(%s)\n", name, f.Name(), g.typeStr(f.Type()), signedVal(v, w, s).String()))
				}
			} else if ft.Info()&types.IsBoolean != 0 {
				if v, has := model[fk+":"]; has {
					b.WriteString(fmt.Sprintf("\t%s.%s = %v\n", name, f.Name(), v.Sign() != 0))
				}
			}
		case *types.Slice:
			tmp := strings.ReplaceAll(name+"_"+f.Name(), ".", "_")
			code, ok := e.genValue(g, fk, f.Type(), model, tmp)
			if ok {
				b.WriteString(code)
				b.WriteString(fmt.Sprintf("\t%s.%s = %s\n", name, f.Name(), tmp))
			}
		}
	}
	return b.String(), true
}

// ---- per-function replay templates (/verif/replay/<key>.go.tmpl) ------------------
//
// Placeholders: {{INSTREAM}} -> []byte literal of the model's input stream;
// {{M:<key>|<default>}} -> the model integer registered under <key>.
// The template prints REPLAY-RESULT / REPLAY-PANIC lines like the generic harness
// and a line "REPLAY-VERDICT: violated" when it observes the violation itself.

func (e *Engine) replayTemplate(fn *ssa.Function) (string, bool) {
	name := sanitizeSym(strings.TrimPrefix(funcKey(fn), modPath+"/")) + ".go.tmpl"
	b, err := os.ReadFile(filepath.Join(*flagVerif, "replay", name))
	if err != nil {
		return "", false
	}
	return string(b), true
}

func (e *Engine) replayWithTemplate(o *Obligation, fn *ssa.Function, tmpl string, model map[string]*big.Int, res replayResult) replayResult {
	res.hasInput = true
	var in []string
	for k := 0; k < replayElems; k++ {
		v := model[fmt.Sprintf("instream:%d", k)]
		if v == nil {
			v = big.NewInt(0)
		}
		in = append(in, signedVal(v, 8, false).String())
	}
	src := strings.ReplaceAll(tmpl, "{{INSTREAM}}", "[]byte{"+strings.Join(in, ", ")+"}")
	for {
		i := strings.Index(src, "{{M:")
		if i < 0 {
			break
		}
		j := strings.Index(src[i:], "}}")
		if j < 0 {
			break
		}
		spec := src[i+4 : i+j]
		def := "0"
		if k := strings.LastIndex(spec, "|"); k >= 0 {
			def = spec[k+1:]
			spec = spec[:k]
		}
		val := def
		if v, ok := model[spec]; ok {
			val = signedVal(v, 64, true).String()
		}
		src = src[:i] + val + src[i+j+2:]
	}
	dir, err := os.MkdirTemp("", "govc-replay")
	if err != nil {
		res.log = "cannot create scratch dir"
		return res
	}
	defer os.RemoveAll(dir)
	testFile := filepath.Join(dir, "replay_test.go")
	os.WriteFile(testFile, []byte(src), 0o644)
	pkgDir := filepath.Join(e.repoRoot, strings.TrimPrefix(strings.TrimPrefix(fn.Pkg.Pkg.Path(), modPath), "/"))
	ov := map[string]map[string]string{"Replace": {filepath.Join(pkgDir, "zz_replay_verif_test.go"): testFile}}
	ovb, _ := json.Marshal(ov)
	ovFile := filepath.Join(dir, "ov.json")
	os.WriteFile(ovFile, ovb, 0o644)
	ctx, cancel := context.WithTimeout(context.Background(), 180*time.Second)
	defer cancel()
	cmd := exec.CommandContext(ctx, "go", "test", "-overlay", ovFile, "-vet=off", "-count=1", "-timeout", "60s", "-run", "^TestZZReplayVerif$", "-v", ".")
	cmd.Dir = pkgDir
	cmd.Env = append(os.Environ(), "GOFLAGS=-mod=mod", "GOPROXY=off", "GOSUMDB=off", "GOTOOLCHAIN=local")
	out, _ := cmd.CombinedOutput()
	text := string(out)
	var keep []string
	for _, l := range strings.Split(text, "\n") {
		if strings.HasPrefix(l, "REPLAY-") || strings.Contains(l, "panic") || strings.Contains(l, "FAIL") || strings.Contains(l, ".go:") {
			keep = append(keep, l)
		}
	}
	res.log = "generated test (from template):\n" + indent(src, "    ") + "\noutput:\n" + indent(strings.Join(keep, "\n"), "    ")
	panicked := strings.Contains(text, "REPLAY-PANIC:") || strings.Contains(text, "panic:")
	switch {
	case strings.Contains(o.Kind, "safety:") && panicked:
		res.confirmed = true
		res.log += "\nverdict: the real code panics on the model's input"
	case strings.Contains(text, "REPLAY-VERDICT: violated"):
		res.confirmed = true
		res.log += "\nverdict: the real code exhibits the violation on the model's input"
	default:
		res.log += "\nverdict: the real code does not exhibit the violation on this input (model not confirmed)"
	}
	return res
}

func isRepoType(t types.Type) bool {
	n, ok := types.Unalias(t).(*types.Named)
	if !ok || n.Obj().Pkg() == nil {
		return false
	}
	p := n.Obj().Pkg().Path()
	return strings.HasPrefix(p, modPath) && !strings.HasSuffix(p, "pb")
}
