package main

// Calls: builtins, intrinsics, contract application (modular), inlining.

import (
	"fmt"
	"go/ast"
	"go/token"
	"go/types"
	"strings"

	"golang.org/x/tools/go/ssa"
)

type ssaAlloc = ssa.Alloc

const maxInlineDepth = 12

func (e *Engine) call(fr *Frame, st *State, c *ssa.CallCommon, instr ssa.Value, pos token.Pos) SV {
	var args []SV
	for _, a := range c.Args {
		args = append(args, e.val(fr, a))
	}
	fn := e.val(fr, c.Value)
	return e.callResolved(fr, st, c, fn, args, instr, pos)
}

func (e *Engine) callResolved(fr *Frame, st *State, c *ssa.CallCommon, fn SV, args []SV, instr ssa.Value, pos token.Pos) SV {
	sig := c.Signature()
	resT := resultType(sig)
	if c.IsInvoke() {
		return e.invoke(fr, st, c, fn, args, resT, pos)
	}
	if b, ok := c.Value.(*ssa.Builtin); ok {
		return e.builtin(fr, st, b, c, args, resT, pos)
	}
	f, ok := fn.(*FuncSV)
	if ok && f.Fn == nil && f.Term != "" {
		// a function value the caller supplied: it must not be nil, and it may do
		// anything to the heap and to the ghost state.
		e.vc.oblige(e.oname(fr, "safety:nilfunc#"), st.pc, fmt.Sprintf("(not (= %s 0))", f.Term), "call of a nil function value at "+e.posStr(pos))
		e.havocWholeHeap(st, "unknown function value called at "+e.posStr(pos))
		// ghosts fvarg/fvres: the first (pointer or integer) argument and the boolean
		// result of the most recent call through an unknown function value
		if len(args) > 0 {
			if fl := func() (out []string) { defer func() { recover() }(); return e.flatten(sig.Params().At(0).Type(), args[0]) }(); len(fl) == 1 {
				if _, ok := st.ghost["fvarg"]; ok {
					st.ghost["fvarg"] = fl[0]
				}
			}
		}
		if resT == nil {
			return nil
		}
		rv := e.freshSV(resT, "r_indirect", st.pc, st)
		if sc, ok := rv.(*Sc); ok && isBoolType(resT) {
			if _, ok := st.ghost["fvres"]; ok {
				st.ghost["fvres"] = ite(sc.T, "1", "0")
			}
		}
		return rv
	}
	if !ok || f.Fn == nil {
		panic(engErr("indirect call through an unknown function value at " + e.posStr(pos)))
	}
	all := append(append([]SV(nil), args...), f.Bind...)
	return e.callStatic(fr, st, f.Fn, all, resT, pos)
}

func resultType(sig *types.Signature) types.Type {
	r := sig.Results()
	switch r.Len() {
	case 0:
		return nil
	case 1:
		return r.At(0).Type()
	}
	return r
}

// funcKey gives the contract key of an ssa function.
func funcKey(fn *ssa.Function) string {
	if o := fn.Origin(); o != nil {
		fn = o
	}
	pkg := ""
	if fn.Pkg != nil {
		pkg = fn.Pkg.Pkg.Path()
	} else if fn.Object() != nil && fn.Object().Pkg() != nil {
		pkg = fn.Object().Pkg().Path()
	}
	if recv := fn.Signature.Recv(); recv != nil {
		t := recv.Type()
		if p, ok := t.(*types.Pointer); ok {
			t = p.Elem()
		}
		if n, ok := types.Unalias(t).(*types.Named); ok {
			if n.Obj().Pkg() != nil {
				pkg = n.Obj().Pkg().Path()
			}
			return pkg + "." + n.Obj().Name() + "." + fn.Name()
		}
	}
	if fn.Parent() != nil {
		return funcKey(fn.Parent()) + "$" + strings.TrimPrefix(fn.Name(), fn.Parent().Name()+"$")
	}
	return pkg + "." + fn.Name()
}

func shortName(fn *ssa.Function) string {
	k := funcKey(fn)
	if i := strings.LastIndex(k, "/"); i >= 0 {
		k = k[i+1:]
	}
	return k
}

func (e *Engine) callStatic(fr *Frame, st *State, fn *ssa.Function, args []SV, resT types.Type, pos token.Pos) SV {
	rv := e.callStatic0(fr, st, fn, args, resT, pos)
	if fr != nil && fr.top && e.curContract != nil && len(e.curContract.CallAssumes) > 0 {
		e.callAssumes(fr, st, fn, args, rv, resT, pos)
	}
	return rv
}

// callAssumes: assume_call clauses of the verified function - facts assumed about the
// results of a callee at its call sites (rely conditions on shared state such as a
// sync.Map; each is listed as an assumption in the evidence).
func (e *Engine) callAssumes(fr *Frame, st *State, fn *ssa.Function, args []SV, rv SV, resT types.Type, pos token.Pos) {
	rn := relName(fn)
	for _, ca := range e.curContract.CallAssumes {
		if ca.Text != rn && ca.Text != fn.Name() {
			continue
		}
		env := e.loopEnv(fr, st)
		sig := fn.Signature
		i := 0
		if sig.Recv() != nil {
			i = 1
			if len(args) > 0 {
				env = env.with("recv", TV{V: args[0], T: sig.Recv().Type()})
			}
		}
		for j := 0; j < sig.Params().Len() && i+j < len(args); j++ {
			env = env.with(fmt.Sprintf("arg%d", j), TV{V: args[i+j], T: sig.Params().At(j).Type()})
		}
		r := sig.Results()
		for j := 0; j < r.Len(); j++ {
			v := rv
			if r.Len() > 1 {
				v = rv.(*TupleSV).E[j]
			}
			env = env.with(fmt.Sprintf("result%d", j), TV{V: v, T: r.At(j).Type()})
		}
		if ca.Ghost {
			be, ok := ca.Cl.Expr.(*ast.BinaryExpr)
			var call *ast.CallExpr
			if ok {
				call, ok = be.X.(*ast.CallExpr)
			}
			if !ok || len(call.Args) != 1 {
				panic(fmt.Sprintf("contract error: ghost_call %s: need ghost(g) = expr", ca.Text))
			}
			g := call.Args[0].(*ast.Ident).Name
			tv := e.eval(env, be.Y)
			if tv.Konst != nil {
				st.ghost[g] = tv.Konst.String()
			} else {
				st.ghost[g] = e.vc.define("G_"+g, e.ghostSort(g), e.flatten(tv.T, tv.V)[0])
			}
			continue
		}
		t, err := e.tryEvalBool(env, ca.Cl.Expr)
		if err != nil {
			panic(fmt.Sprintf("contract error: assume_call %s: %v", ca.Text, err))
		}
		e.vc.assume(st.pc, t)
		e.vc.usedExt["assumed at calls of "+ca.Text+" in "+e.curContract.Key+": "+ca.Cl.Text] = true
	}
}

func (e *Engine) callStatic0(fr *Frame, st *State, fn *ssa.Function, args []SV, resT types.Type, pos token.Pos) SV {
	key := funcKey(fn)
	if fr != nil && fr.top && e.curContract != nil && len(e.curContract.CallAsserts) > 0 {
		e.callAsserts(fr, st, fn, args, pos)
	}
	if h, ok := intrinsics[key]; ok {
		return h(e, fr, st, fn, args, resT, pos)
	}
	for pfx, h := range intrinsicPrefixes {
		if strings.HasPrefix(key, pfx) {
			return h(e, fr, st, fn, args, resT, pos)
		}
	}
	if c, ok := e.db.Funcs[key]; ok && !c.Inline && !(c.IntOnly && e.ar.mode == ModeBV) {
		return e.applyContract(fr, st, fn, c, args, resT, pos)
	}
	if len(fn.Blocks) == 0 {
		panic(engErr(fmt.Sprintf("callee %s has no body and no contract (at %s)", key, e.posStr(pos))))
	}
	if fr.depth >= maxInlineDepth {
		panic(engErr("inline depth exceeded at " + key))
	}
	// inline
	e.vc.counters["inl:"+fr.prefix+shortName(fn)]++
	k := e.vc.counters["inl:"+fr.prefix+shortName(fn)]
	sub := &Frame{fn: fn, regs: map[ssa.Value]SV{}, cellOf: map[*ssa.Alloc]*Cell{}, depth: fr.depth + 1,
		prefix: fmt.Sprintf("%sin:%s#%d:", fr.prefix, shortName(fn), k), params: args}
	e.inlined[key] = true
	if hasRecover(fn) {
		sub.recovers = true
	}
	ns, rv := e.runFunc(sub, st)
	if ns == nil {
		// callee never returns on any path (always panics): the caller's path ends
		st.pc = "false"
		return e.zeroOrNil(resT)
	}
	*st = *ns
	return rv
}

// callAsserts checks the verified function's assert_call clauses for this callee:
// statements about the arguments that must hold at every call of it.
func (e *Engine) callAsserts(fr *Frame, st *State, fn *ssa.Function, args []SV, pos token.Pos) {
	rn := relName(fn)
	for k, ca := range e.curContract.CallAsserts {
		if ca.Text != rn && ca.Text != fn.Name() {
			continue
		}
		if ca.Site != "" {
			pp := e.prog.Fset.Position(pos)
			if !strings.Contains(e.sourceLine(pp.Filename, pp.Line), ca.Site) {
				continue
			}
		}
		if fr.callHits == nil {
			fr.callHits = map[int]int{}
		}
		fr.callHits[k]++
		env := e.loopEnv(fr, st)
		sig := fn.Signature
		i := 0
		if sig.Recv() != nil {
			env = env.with("recv", TV{V: args[0], T: sig.Recv().Type()})
			i = 1
		}
		for j := 0; j < sig.Params().Len() && i+j < len(args); j++ {
			env = env.with(fmt.Sprintf("arg%d", j), TV{V: args[i+j], T: sig.Params().At(j).Type()})
		}
		t, err := e.tryEvalBool(env, ca.Cl.Expr)
		if err != nil {
			panic(fmt.Sprintf("contract error: assert_call %s: %v", ca.Text, err))
		}
		ob := e.vc.oblige(fmt.Sprintf("assert_call:%d#", k+1), st.pc, t, fmt.Sprintf("at the call of %s (%s): %s", ca.Text, e.posStr(pos), ca.Cl.Text))
		ob.Props = ca.Cl.Props
		if ca.Assume {
			e.vc.assume(st.pc, t)
		}
	}
}

// ifaceCallAsserts: assert_call clauses naming an interface method (pkg.Iface.Method or Iface.Method).
func (e *Engine) ifaceCallAsserts(fr *Frame, st *State, it types.Type, m *types.Func, args []SV, pos token.Pos) {
	n, ok := types.Unalias(it).(*types.Named)
	if !ok {
		return
	}
	short := n.Obj().Name() + "." + m.Name()
	long := short
	if n.Obj().Pkg() != nil {
		long = n.Obj().Pkg().Name() + "." + short
	}
	sig := m.Type().(*types.Signature)
	for k, ca := range e.curContract.CallAsserts {
		if ca.Text != short && ca.Text != long {
			continue
		}
		if fr.callHits == nil {
			fr.callHits = map[int]int{}
		}
		fr.callHits[k]++
		env := e.loopEnv(fr, st)
		for j := 0; j < sig.Params().Len() && j < len(args); j++ {
			env = env.with(fmt.Sprintf("arg%d", j), TV{V: args[j], T: sig.Params().At(j).Type()})
		}
		t, err := e.tryEvalBool(env, ca.Cl.Expr)
		if err != nil {
			panic(fmt.Sprintf("contract error: assert_call %s: %v", ca.Text, err))
		}
		ob := e.vc.oblige(fmt.Sprintf("assert_call:%d#", k+1), st.pc, t, fmt.Sprintf("at the call of %s (%s): %s", ca.Text, e.posStr(pos), ca.Cl.Text))
		ob.Props = ca.Cl.Props
		if ca.Assume {
			e.vc.assume(st.pc, t)
		}
	}
}

// ifaceCallAssumes: assume_call / ghost_call clauses naming an interface method.
func (e *Engine) ifaceCallAssumes(fr *Frame, st *State, it types.Type, m *types.Func, recv SV, args []SV, rv SV) {
	n, ok := types.Unalias(it).(*types.Named)
	if !ok {
		return
	}
	short := n.Obj().Name() + "." + m.Name()
	long := short
	if n.Obj().Pkg() != nil {
		long = n.Obj().Pkg().Name() + "." + short
	}
	sig := m.Type().(*types.Signature)
	for _, ca := range e.curContract.CallAssumes {
		if ca.Text != short && ca.Text != long {
			continue
		}
		env := e.loopEnv(fr, st).with("recv", TV{V: recv, T: it})
		for j := 0; j < sig.Params().Len() && j < len(args); j++ {
			env = env.with(fmt.Sprintf("arg%d", j), TV{V: args[j], T: sig.Params().At(j).Type()})
		}
		r := sig.Results()
		for j := 0; j < r.Len(); j++ {
			v := rv
			if r.Len() > 1 {
				v = rv.(*TupleSV).E[j]
			}
			env = env.with(fmt.Sprintf("result%d", j), TV{V: v, T: r.At(j).Type()})
		}
		if ca.Ghost {
			be, ok := ca.Cl.Expr.(*ast.BinaryExpr)
			var call *ast.CallExpr
			if ok {
				call, ok = be.X.(*ast.CallExpr)
			}
			if !ok || len(call.Args) != 1 {
				panic(fmt.Sprintf("contract error: ghost_call %s: need ghost(g) = expr", ca.Text))
			}
			g := call.Args[0].(*ast.Ident).Name
			tv := e.eval(env, be.Y)
			if tv.Konst != nil {
				st.ghost[g] = tv.Konst.String()
			} else {
				st.ghost[g] = e.vc.define("G_"+g, e.ghostSort(g), e.flatten(tv.T, tv.V)[0])
			}
			continue
		}
		t, err := e.tryEvalBool(env, ca.Cl.Expr)
		if err != nil {
			panic(fmt.Sprintf("contract error: assume_call %s: %v", ca.Text, err))
		}
		e.vc.assume(st.pc, t)
		e.vc.usedExt["assumed at calls of "+ca.Text+" in "+e.curContract.Key+": "+ca.Cl.Text] = true
	}
}

func (e *Engine) zeroOrNil(t types.Type) SV {
	if t == nil {
		return nil
	}
	return e.zero(t)
}

func hasRecover(fn *ssa.Function) bool {
	return fn.Recover != nil
}

// ---- contracts at call sites ---------------------------------------------------

// bindContractEnv builds the environment in which a contract's clauses are
// evaluated: parameter names bound to the actual arguments.
func (e *Engine) contractEnv(c *Contract, fn *ssa.Function, args []SV, st *State) *Env {
	env := &Env{vars: map[string]TV{}, cur: st, e: e}
	if fn.Pkg != nil {
		env.pkg = fn.Pkg.Pkg
	} else if fn.Object() != nil {
		env.pkg = fn.Object().Pkg()
	}
	if o := fn.Origin(); o != nil && o.Pkg != nil {
		env.pkg = o.Pkg.Pkg
	}
	sig := fn.Signature
	i := 0
	if sig.Recv() != nil {
		if c.RecvName != "" {
			env.vars[c.RecvName] = TV{V: args[0], T: sig.Recv().Type()}
		}
		i = 1
	}
	for j := 0; j < sig.Params().Len(); j++ {
		if j < len(c.ParamNames) && c.ParamNames[j] != "" && c.ParamNames[j] != "_" {
			env.vars[c.ParamNames[j]] = TV{V: args[i+j], T: sig.Params().At(j).Type()}
		}
	}
	return env
}

func (e *Engine) bindResults(env *Env, c *Contract, sig *types.Signature, rv SV) *Env {
	n := *env
	n.vars = map[string]TV{}
	for k, v := range env.vars {
		n.vars[k] = v
	}
	r := sig.Results()
	for j := 0; j < r.Len(); j++ {
		var v SV
		if r.Len() == 1 {
			v = rv
		} else {
			v = rv.(*TupleSV).E[j]
		}
		name := fmt.Sprintf("result%d", j)
		if j < len(c.ResNames) && c.ResNames[j] != "" && c.ResNames[j] != "_" {
			name = c.ResNames[j]
		}
		n.vars[name] = TV{V: v, T: r.At(j).Type()}
		if r.Len() == 1 {
			n.vars["result"] = TV{V: v, T: r.At(j).Type()}
		}
	}
	return &n
}

func (e *Engine) applyContract(fr *Frame, st *State, fn *ssa.Function, c *Contract, args []SV, resT types.Type, pos token.Pos) SV {
	e.vc.counters["callc:"+fr.prefix+shortName(fn)]++
	k := e.vc.counters["callc:"+fr.prefix+shortName(fn)]
	cname := fmt.Sprintf("%scall:%s#%d", fr.prefix, shortName(fn), k)
	if c.Trusted {
		e.vc.usedExt[c.Key] = true
	} else {
		e.usedContracts[c.Key] = true
	}
	env := e.contractEnv(c, fn, args, st)
	// preconditions
	preAll := "true"
	for i, r := range c.Requires {
		t, err := e.tryEvalBool(env, r.Expr)
		if err != nil {
			panic(engErr(fmt.Sprintf("%s: cannot translate precondition %q of %s: %v", e.posStr(pos), r.Text, c.Key, err)))
		}
		e.vc.oblige(fmt.Sprintf("%s:pre%d", cname, i+1), st.pc, t, fmt.Sprintf("precondition %q of %s at %s", r.Text, c.Key, e.posStr(pos)))
		preAll = and(preAll, t)
	}
	// the callee's postcondition is available only where its precondition held
	preAll = e.vc.define("pre", "Bool", preAll)
	pre := st.clone()
	// frame: havoc the modifies set
	for _, m := range c.Modifies {
		e.havocModifies(fr, st, env, m, cname)
	}
	// ghost events of the callee (sets ghost(g) = e) happen at its entry, whatever follows
	applySets := func() {
		for _, sc := range c.Sets {
			be, ok := sc.Expr.(*ast.BinaryExpr)
			if !ok {
				continue
			}
			call, ok := be.X.(*ast.CallExpr)
			if !ok || len(call.Args) != 1 {
				continue
			}
			g := call.Args[0].(*ast.Ident).Name
			tv := e.eval(env, be.Y)
			if tv.Konst != nil {
				st.ghost[g] = tv.Konst.String()
			} else if sc2, ok := tv.V.(*Sc); ok {
				st.ghost[g] = sc2.T
			}
		}
	}
	defer applySets()
	if c.NoFrame {
		// the callee's frame is not verified: nothing may be assumed unchanged
		if cc := e.curContract; cc != nil && !cc.NoFrame && e.entryState != nil {
			// a function with a frame of its own cannot call a callee whose frame is unknown
			e.vc.oblige(cname+":frame", st.pc, "false", "call of "+c.Key+", which has no verified frame (noframe), from a function whose own frame is claimed")
		}
		e.havocWholeHeap(st, "callee "+c.Key+" has no verified frame (noframe)", c.Preserves...)
	}
	// a callee may allocate: watermark is non-decreasing
	nwm := e.vc.declare("wm", "Int")
	e.vc.assume("true", fmt.Sprintf("(>= %s %s)", nwm, st.wm))
	st.wm = nwm
	// result (may refer to objects the callee allocated)
	var rv SV
	if resT != nil {
		rv = e.freshSV(resT, "r_"+fn.Name(), st.pc, st)
	}
	penv := e.bindResults(env, c, fn.Signature, rv)
	penv.cur = st
	penv.old = pre
	for _, q := range append(append([]*Clause(nil), c.Ensures...), c.AssumedEnsures...) {
		t, err := e.tryEvalBool(penv, q.Expr)
		if err != nil {
			e.vc.note(fmt.Sprintf("postcondition %q of %s not usable here (%v); dropped from assumptions", q.Text, c.Key, err))
			continue
		}
		e.vc.assume(st.pc, implies(preAll, t))
	}
	for _, q := range c.AssumedEnsures {
		e.vc.usedExt["assumed (not established by its verification) of "+c.Key+": "+q.Text] = true
	}
	// vacuity guard: the assumed postcondition must not contradict the path
	e.vc.cover(cname+":cover", st.pc)
	return rv
}

func (e *Engine) tryEvalBool(env *Env, x ast.Expr) (t string, err error) {
	defer func() {
		if r := recover(); r != nil {
			switch v := r.(type) {
			case specErr:
				err = v
			case engErr:
				err = v
			case error:
				err = fmt.Errorf("internal: %v (%s)", v, shortStack())
			default:
				err = fmt.Errorf("internal: %v (%s)", v, shortStack())
			}
		}
	}()
	return e.evalBool(env, x), nil
}

// ---- modifies ------------------------------------------------------------------

type modEntry struct {
	kind    string // field, allfields, elems, box, map, ghost
	typeKey string // for field/allfields: struct type key
	suffix  string // for field: leaf suffix prefix (".f")
	elKey   string // elems: element type key
	ref     string
	lo, hi  string // elems: absolute index range [lo, hi)
	name    string // ghost
	text    string
}

func (e *Engine) evalModifies(env *Env, m *Clause) modEntry {
	switch x := m.Expr.(type) {
	case *ast.CallExpr:
		if id, ok := x.Fun.(*ast.Ident); ok && id.Name == "allfields" {
			p := e.eval(env, x.Args[0])
			pt, ok := p.T.Underlying().(*types.Pointer)
			if !ok {
				sfail("modifies p.*: p is not a pointer")
			}
			return modEntry{kind: "allfields", typeKey: e.typeKey(pt.Elem()), ref: e.flatten(p.T, p.V)[0], text: m.Text}
		}
		if id, ok := x.Fun.(*ast.Ident); ok && id.Name == "ghost" {
			return modEntry{kind: "ghost", name: x.Args[0].(*ast.Ident).Name, text: m.Text}
		}
	case *ast.SelectorExpr:
		p := e.eval(env, x.X)
		pt, ok := p.T.Underlying().(*types.Pointer)
		if !ok {
			sfail("modifies x.f: x is not a pointer (%s)", p.T)
		}
		// resolve (possibly promoted) field path
		obj, index, _ := types.LookupFieldOrMethod(p.T, true, namedPkg(p.T, env.pkg), x.Sel.Name)
		if obj == nil {
			sfail("modifies: no field %s", x.Sel.Name)
		}
		var path []pathEl
		for _, i := range index {
			path = append(path, pathEl{field: i})
		}
		// interior pointers (address of an embedded/nested struct inside a heap
		// object) are kept as (root object, path): the field lives in the root's maps
		if ps, isPtr := p.V.(*PtrSV); isPtr && ps.Kind == pkHeap && len(ps.Path) > 0 {
			full := append(append([]pathEl(nil), ps.Path...), path...)
			_, suffix := e.typeAtPath(ps.Root, full)
			return modEntry{kind: "field", typeKey: e.typeKey(ps.Root), suffix: suffix, ref: ps.Ref, text: m.Text}
		}
		_, suffix := e.typeAtPath(pt.Elem(), path)
		return modEntry{kind: "field", typeKey: e.typeKey(pt.Elem()), suffix: suffix, ref: e.flatten(p.T, p.V)[0], text: m.Text}
	case *ast.SliceExpr:
		s := e.eval(env, x.X)
		switch st := s.T.Underlying().(type) {
		case *types.Slice:
			sv := s.V.(*SliceSV)
			lo, hi := sv.Off, e.idxAdd(sv.Off, sv.Len)
			if x.Low != nil {
				lo = e.idxAdd(sv.Off, e.toIdxTV(e.eval(env, x.Low)))
			}
			if x.High != nil {
				hi = e.idxAdd(sv.Off, e.toIdxTV(e.eval(env, x.High)))
			}
			return modEntry{kind: "elems", elKey: e.typeKey(st.Elem()), ref: sv.Base, lo: lo, hi: hi, text: m.Text}
		case *types.Map:
			_, pn, _ := e.mapSorts(st)
			return modEntry{kind: "map", elKey: strings.TrimPrefix(pn, "MP_"), ref: s.V.(*Sc).T, text: m.Text}
		case *types.Pointer:
			// pointer to an array: the array's elements (a row of the element map)
			if at, ok := st.Elem().Underlying().(*types.Array); ok {
				if pv, ok := s.V.(*PtrSV); ok && pv.Kind == pkHeap && len(pv.Path) == 0 {
					lo, hi := e.ar.ConstI(0, 64, true), e.ar.ConstI(at.Len(), 64, true)
					if x.Low != nil {
						lo = e.toIdxTV(e.eval(env, x.Low))
					}
					if x.High != nil {
						hi = e.toIdxTV(e.eval(env, x.High))
					}
					return modEntry{kind: "elems", elKey: e.typeKey(at.Elem()), ref: pv.Ref, lo: lo, hi: hi, text: m.Text}
				}
			}
		}
	case *ast.StarExpr:
		p := e.eval(env, x.X)
		pt := p.T.Underlying().(*types.Pointer)
		if _, isStruct := pt.Elem().Underlying().(*types.Struct); isStruct {
			return modEntry{kind: "allfields", typeKey: e.typeKey(pt.Elem()), ref: e.flatten(p.T, p.V)[0], text: m.Text}
		}
		return modEntry{kind: "box", typeKey: e.typeKey(pt.Elem()), ref: e.flatten(p.T, p.V)[0], text: m.Text}
	}
	sfail("unsupported modifies clause %q", m.Text)
	return modEntry{}
}

func namedPkg(t types.Type, def *types.Package) *types.Package {
	if n := namedOf(t); n != nil && n.Obj().Pkg() != nil {
		return n.Obj().Pkg()
	}
	return def
}

// heap maps covered by a modifies entry (by name prefix)
func (m modEntry) covers(name string) bool {
	switch m.kind {
	case "field":
		p := "F_" + m.typeKey + m.suffix
		return name == p || strings.HasPrefix(name, p+".") || strings.HasPrefix(name, p+"[")
	case "allfields":
		p := "F_" + m.typeKey
		return strings.HasPrefix(name, p+".")
	case "elems":
		p := "M_" + m.elKey
		return name == p || strings.HasPrefix(name, p+".")
	case "box":
		p := "B_" + m.typeKey
		return name == p || strings.HasPrefix(name, p+".")
	case "map":
		return name == "MP_"+m.elKey || name == "MC_"+m.elKey || strings.HasPrefix(name, "MV_"+m.elKey)
	}
	return false
}

// candidate heap map names for a modifies entry: all maps known so far that it covers
func (e *Engine) mapsCovered(m modEntry) []string {
	var out []string
	for name := range e.vc.heapSort {
		if m.covers(name) {
			out = append(out, name)
		}
	}
	sortStrings(out)
	return out
}

func (e *Engine) havocModifies(fr *Frame, st *State, env *Env, mc *Clause, cname string) {
	m := e.evalModifies(env, mc)
	if m.kind == "ghost" {
		e.preservedWrite(st, "ghost("+m.name+")")
		st.ghost[m.name] = e.vc.declare("G_"+m.name, e.ghostSort(m.name))
		return
	}
	if mc.Cond != nil {
		// conditional frame entry: applies (and is checked) only when cond holds
		cond := e.evalBool(env, mc.Cond)
		saved := st.pc
		st.pc = e.vc.define("pc", "Bool", and(saved, cond))
		e.ensureMapsFor(env, mc, st)
		e.frameCheckEntry(fr, st, m, cname)
		st.pc = saved
		for _, name := range e.mapsCovered(m) {
			srt := e.vc.heapSort[name]
			h := e.heapGet(st, name, srt)
			nv := e.vc.declare("hv", arrayElemSort(srt))
			e.heapSet(st, name, srt, fmt.Sprintf("(store %s %s (ite %s %s (select %s %s)))", h, m.ref, cond, nv, h, m.ref))
		}
		return
	}
	// make sure the maps the entry could touch exist: declare maps lazily by type info
	e.ensureMapsFor(env, mc, st)
	// the callee's writes are the caller's writes
	e.frameCheckEntry(fr, st, m, cname)
	for _, name := range e.mapsCovered(m) {
		srt := e.vc.heapSort[name]
		h := e.heapGet(st, name, srt)
		inner := arrayElemSort(srt)
		switch m.kind {
		case "elems":
			na := e.vc.declare("hv", inner)
			q := e.vc.fresh("q")
			old := fmt.Sprintf("(select %s %s)", h, m.ref)
			e.vc.assume("true", fmt.Sprintf("(forall ((%s %s)) (! (=> (not %s) (= (select %s %s) (select %s %s))) :pattern ((select %s %s))))",
				q, e.ar.idxSort(), and(e.idxLe(m.lo, q), e.idxLt(q, m.hi)), na, q, old, q, na, q))
			e.heapSet(st, name, srt, fmt.Sprintf("(store %s %s %s)", h, m.ref, na))
		default:
			nv := e.vc.declare("hv", inner)
			e.heapSet(st, name, srt, fmt.Sprintf("(store %s %s %s)", h, m.ref, nv))
		}
	}
}

// ensureMapsFor declares (by touching) the heap maps a modifies clause refers to,
// so that havoc covers maps that have not been read yet.
func (e *Engine) ensureMapsFor(env *Env, mc *Clause, st *State) {
	defer func() { recover() }()
	switch x := mc.Expr.(type) {
	case *ast.SelectorExpr:
		e.eval(env, x) // loading the field declares its maps
	case *ast.SliceExpr:
		s := e.eval(env, x.X)
		if sl, ok := s.T.Underlying().(*types.Slice); ok {
			for _, l := range e.leaves(sl.Elem()) {
				name, srt := e.backingMap(sl.Elem(), l)
				e.heapGet(st, name, srt)
			}
		}
	case *ast.CallExpr:
		if id, ok := x.Fun.(*ast.Ident); ok && id.Name == "allfields" {
			p := e.eval(env, x.Args[0])
			pt := p.T.Underlying().(*types.Pointer)
			e.load(nil, st, p.V, pt.Elem(), "spec")
		}
	case *ast.StarExpr:
		e.eval(env, x)
	}
}

// frameCheck: a store through p (of value type t) must be permitted by the
// modifies clause of the function under verification (and of enclosing loops).
func (e *Engine) frameCheck(fr *Frame, st *State, p *PtrSV, t types.Type) {
	c := e.curContract
	if c == nil || c.NoFrame || e.entryState == nil {
		return
	}
	ref := p.Ref
	if e.syntacticallyFresh(ref) {
		return
	}
	_, prefix := e.typeAtPath(p.Root, p.Path)
	var name string
	if p.Kind == pkElem {
		name = "M_" + e.typeKey(p.Root) + prefix
	} else {
		name, _, _ = e.heapMapFor(p.Root, prefix, "X")
		if _, isArr := p.Root.Underlying().(*types.Array); isArr && len(p.Path) == 0 {
			name = "M_" + e.typeKey(p.Root.Underlying().(*types.Array).Elem())
		}
	}
	allowed := fmt.Sprintf("(> %s %s)", ref, e.entryState.wm)
	for _, m := range e.topMods {
		if !m.covers(name) && !(m.kind == "elems" && p.Kind == pkElem && strings.HasPrefix(name, "M_"+m.elKey)) {
			continue
		}
		cond := fmt.Sprintf("(= %s %s)", ref, m.ref)
		if m.kind == "elems" && p.Kind == pkElem {
			cond = and(cond, and(e.idxLe(m.lo, p.Idx), e.idxLt(p.Idx, m.hi)))
		}
		allowed = or(allowed, cond)
	}
	e.vc.oblige(e.oname(fr, "frame:"+shortMapName(name)), st.pc, allowed, "write outside the modifies clause to "+name)
	e.loopFrameCheck(fr, st, name, ref, p)
}

func shortMapName(n string) string { return n }

func (e *Engine) syntacticallyFresh(ref string) bool {
	return strings.HasPrefix(ref, "wm!")
}

func (e *Engine) frameCheckMap(fr *Frame, st *State, m string, pn string) {
	c := e.curContract
	if c == nil || c.NoFrame || e.entryState == nil || fr == nil {
		return
	}
	if e.syntacticallyFresh(m) {
		return
	}
	allowed := fmt.Sprintf("(> %s %s)", m, e.entryState.wm)
	for _, me := range e.topMods {
		if me.kind == "map" && me.covers(pn) {
			allowed = or(allowed, fmt.Sprintf("(= %s %s)", m, me.ref))
		}
	}
	e.vc.oblige(e.oname(fr, "frame:"+pn), st.pc, allowed, "map write outside the modifies clause")
}

// frameCheckEntry: a callee's modifies entry must be within the caller's frame.
func (e *Engine) frameCheckEntry(fr *Frame, st *State, m modEntry, cname string) {
	c := e.curContract
	if c == nil || c.NoFrame || e.entryState == nil {
		return
	}
	if e.syntacticallyFresh(m.ref) {
		return
	}
	allowed := fmt.Sprintf("(> %s %s)", m.ref, e.entryState.wm)
	for _, t := range e.topMods {
		if t.kind == "allfields" && (m.kind == "field" || m.kind == "allfields") && t.typeKey == m.typeKey {
			allowed = or(allowed, fmt.Sprintf("(= %s %s)", m.ref, t.ref))
		}
		if t.kind == "field" && m.kind == "field" && t.typeKey == m.typeKey && (t.suffix == m.suffix || strings.HasPrefix(m.suffix, t.suffix+".")) {
			allowed = or(allowed, fmt.Sprintf("(= %s %s)", m.ref, t.ref))
		}
		if t.kind == "elems" && m.kind == "elems" && t.elKey == m.elKey {
			allowed = or(allowed, and(fmt.Sprintf("(= %s %s)", m.ref, t.ref), or(e.idxLe(m.hi, m.lo), and(e.idxLe(t.lo, m.lo), e.idxLe(m.hi, t.hi)))))
		}
		if t.kind == "box" && m.kind == "box" && t.typeKey == m.typeKey {
			allowed = or(allowed, fmt.Sprintf("(= %s %s)", m.ref, t.ref))
		}
		if t.kind == "map" && m.kind == "map" && t.elKey == m.elKey {
			allowed = or(allowed, fmt.Sprintf("(= %s %s)", m.ref, t.ref))
		}
	}
	e.vc.oblige(cname+":frame:"+sanitizeSym(m.text), st.pc, allowed, "callee modifies "+m.text+" which must be inside the caller's modifies clause")
}

// ---- interface method calls ----------------------------------------------------

func (e *Engine) invoke(fr *Frame, st *State, c *ssa.CallCommon, recv SV, args []SV, resT types.Type, pos token.Pos) SV {
	m := c.Method
	it := c.Value.Type()
	key := ""
	if n, ok := types.Unalias(it).(*types.Named); ok && n.Obj().Pkg() != nil {
		key = n.Obj().Pkg().Path() + "." + n.Obj().Name() + "." + m.Name()
	} else if n, ok := types.Unalias(it).(*types.Named); ok {
		key = n.Obj().Name() + "." + m.Name() // error.Error
	}
	if h, ok := invokeIntrinsics[key]; ok {
		return h(e, fr, st, nil, append([]SV{recv}, args...), resT, pos)
	}
	if fr != nil && fr.top && e.curContract != nil && len(e.curContract.CallAsserts) > 0 {
		e.ifaceCallAsserts(fr, st, it, m, args, pos)
	}
	iv := recv.(*IfaceSV)
	e.vc.oblige(e.oname(fr, "safety:nil#"), st.pc, not(fmt.Sprintf("(= %s 0)", iv.Tag)), "method call on nil interface: "+e.posStr(pos)+" "+key)
	if ct, ok := e.db.Funcs[key]; ok {
		rv := e.applyIfaceContract(fr, st, ct, m, recv, args, resT, pos)
		if fr != nil && fr.top && e.curContract != nil && len(e.curContract.CallAssumes) > 0 {
			e.ifaceCallAssumes(fr, st, it, m, recv, args, rv)
		}
		return rv
	}
	// closed-world dispatch: an unexported interface of the repository can only be
	// implemented inside its own package
	if impls := e.closedImplementers(it, m); len(impls) > 0 {
		return e.dispatchClosed(fr, st, iv, impls, m, args, resT, pos, key)
	}
	panic(engErr(fmt.Sprintf("interface method %s has no contract (at %s)", key, e.posStr(pos))))
}

func (e *Engine) applyIfaceContract(fr *Frame, st *State, c *Contract, m *types.Func, recv SV, args []SV, resT types.Type, pos token.Pos) SV {
	e.vc.counters["callc:"+fr.prefix+c.Name]++
	k := e.vc.counters["callc:"+fr.prefix+c.Name]
	cname := fmt.Sprintf("%scall:%s.%s#%d", fr.prefix, c.RecvType, c.Name, k)
	if c.Trusted {
		e.vc.usedExt[c.Key] = true
	}
	sig := m.Type().(*types.Signature)
	env := &Env{vars: map[string]TV{}, cur: st, e: e, pkg: m.Pkg()}
	if c.RecvName != "" {
		env.vars[c.RecvName] = TV{V: recv, T: sig.Recv().Type()}
	}
	for j := 0; j < sig.Params().Len(); j++ {
		if j < len(c.ParamNames) && c.ParamNames[j] != "" {
			env.vars[c.ParamNames[j]] = TV{V: args[j], T: sig.Params().At(j).Type()}
		}
	}
	preAll := "true"
	for i, r := range c.Requires {
		t, err := e.tryEvalBool(env, r.Expr)
		if err != nil {
			panic(engErr(fmt.Sprintf("cannot translate precondition %q of %s: %v", r.Text, c.Key, err)))
		}
		e.vc.oblige(fmt.Sprintf("%s:pre%d", cname, i+1), st.pc, t, "precondition "+r.Text)
		preAll = and(preAll, t)
	}
	preAll = e.vc.define("pre", "Bool", preAll)
	pre := st.clone()
	for _, mm := range c.Modifies {
		e.havocModifies(fr, st, env, mm, cname)
	}
	nwm := e.vc.declare("wm", "Int")
	e.vc.assume("true", fmt.Sprintf("(>= %s %s)", nwm, st.wm))
	st.wm = nwm
	var rv SV
	if resT != nil {
		rv = e.freshSV(resT, "r_"+c.Name, st.pc, st)
	}
	penv := e.bindResults(env, c, sig, rv)
	penv.cur = st
	penv.old = pre
	for _, q := range c.Ensures {
		t, err := e.tryEvalBool(penv, q.Expr)
		if err != nil {
			e.vc.note(fmt.Sprintf("postcondition %q of %s not usable here (%v)", q.Text, c.Key, err))
			continue
		}
		e.vc.assume(st.pc, implies(preAll, t))
	}
	return rv
}

func (e *Engine) dispatchClosed(fr *Frame, st *State, iv *IfaceSV, impls []*ssa.Function, m *types.Func, args []SV, resT types.Type, pos token.Pos, key string) SV {
	// case split on the dynamic type tag; each implementer is called statically
	var outs []*State
	var vals []SV
	covered := "false"
	for _, impl := range impls {
		rt := impl.Signature.Recv().Type()
		cond := fmt.Sprintf("(= %s %s)", iv.Tag, e.typeID(rt))
		covered = or(covered, cond)
		bs := st.clone()
		bs.pc = e.vc.define("pc", "Bool", and(st.pc, cond))
		recvV := e.unbox(bs, rt, iv.Val)
		// an arm of the case split may be infeasible where the dynamic type is already
		// known: reachability (cover) obligations are not generated inside the arms
		if len(impls) > 1 {
			e.vc.noCover++
		}
		rv := e.callStatic(fr, bs, impl, append([]SV{recvV}, args...), resT, pos)
		if len(impls) > 1 {
			e.vc.noCover--
		}
		if bs.pc != "false" {
			outs = append(outs, bs)
			vals = append(vals, rv)
		}
	}
	e.vc.oblige(e.oname(fr, "safety:dispatch#"), st.pc, covered, "dynamic type of "+key+" receiver is one of the in-repo implementers")
	e.vc.assume(st.pc, covered)
	if len(outs) == 0 {
		st.pc = "false"
		return e.zeroOrNil(resT)
	}
	merged := e.merge(outs)
	var rv SV
	if resT != nil {
		for k := len(outs) - 1; k >= 0; k-- {
			if rv == nil {
				rv = vals[k]
			} else {
				rv = e.mergeSV(resT, outs[k].pc, vals[k], rv, "disp")
			}
		}
	}
	*st = *merged
	return rv
}

// ---- builtins ---------------------------------------------------------------------

func (e *Engine) builtin(fr *Frame, st *State, b *ssa.Builtin, c *ssa.CallCommon, args []SV, resT types.Type, pos token.Pos) SV {
	switch b.Name() {
	case "len", "cap":
		at := c.Args[0].Type()
		switch xt := at.Underlying().(type) {
		case *types.Slice:
			s := args[0].(*SliceSV)
			if b.Name() == "cap" {
				return &Sc{s.Cap}
			}
			return &Sc{s.Len}
		case *types.Basic:
			return &Sc{e.vc.define("slen", e.ar.idxSort(), e.strLenIdx(args[0].(*Sc).T))}
		case *types.Array:
			return &Sc{e.idxc(xt.Len())}
		case *types.Pointer:
			return &Sc{e.idxc(xt.Elem().Underlying().(*types.Array).Len())}
		case *types.Map:
			return &Sc{e.mapLen(st, xt, args[0].(*Sc).T)}
		case *types.Chan:
			v := e.vc.declare("chanlen", e.ar.idxSort())
			e.vc.assume("true", e.idxLe(e.idxc(0), v))
			return &Sc{v}
		}
	case "copy":
		return e.builtinCopy(fr, st, c, args)
	case "append":
		return e.builtinAppend(fr, st, c, args)
	case "delete":
		mt := c.Args[0].Type().Underlying().(*types.Map)
		k := e.flatten(mt.Key(), args[1])[0]
		e.mapDelete(fr, st, mt, args[0].(*Sc).T, k)
		return nil
	case "min", "max":
		t := c.Args[0].Type()
		_, s, ok := intInfo(t)
		if !ok {
			return e.freshSV(t, "fminmax", st.pc, st)
		}
		cur := args[0].(*Sc).T
		for _, a := range args[1:] {
			at := a.(*Sc).T
			op := token.LEQ
			if b.Name() == "max" {
				op = token.GEQ
			}
			cur = ite(e.ar.Cmp(op, cur, at, s), cur, at)
		}
		return &Sc{cur}
	case "print", "println":
		return nil
	case "recover":
		return &IfaceSV{Tag: "0", Val: "0"}
	case "ssa:wrapnilchk":
		return args[0]
	case "ssa:deferstack":
		return &Sc{"0"}
	case "close":
		return nil
	case "clear":
		panic(engErr("clear builtin unsupported"))
	}
	panic(engErr("builtin " + b.Name() + " unsupported"))
}

func (e *Engine) builtinCopy(fr *Frame, st *State, c *ssa.CallCommon, args []SV) SV {
	dst := args[0].(*SliceSV)
	el := c.Args[0].Type().Underlying().(*types.Slice).Elem()
	lv := e.leaves(el)
	var srcLen string
	var srcAt func(li int, j string) string // element leaf li at relative index j
	if ss, ok := args[1].(*SliceSV); ok {
		srcLen = ss.Len
		// capture source arrays before the update (copy handles overlap like memmove)
		arrs := make([]string, len(lv))
		for i, l := range lv {
			name, srt := e.backingMap(el, l)
			arrs[i] = e.vc.define("src", fmt.Sprintf("(Array %s %s)", e.ar.idxSort(), l.Sort), fmt.Sprintf("(select %s %s)", e.heapGet(st, name, srt), ss.Base))
		}
		srcAt = func(li int, j string) string {
			return fmt.Sprintf("(select %s %s)", arrs[li], e.idxAdd(ss.Off, j))
		}
	} else {
		s := args[1].(*Sc).T
		srcLen = e.vc.define("slen", e.ar.idxSort(), e.strLenIdx(s))
		srcAt = func(li int, j string) string { return e.strAt(s, j) }
	}
	n := e.vc.define("ncopy", e.ar.idxSort(), ite(e.idxLe(dst.Len, srcLen), dst.Len, srcLen))
	// frame: writes dst[0:n]
	if !e.syntacticallyFresh(dst.Base) {
		e.frameCheckRange(fr, st, el, dst.Base, dst.Off, e.idxAdd(dst.Off, n))
	}
	for i, l := range lv {
		name, srt := e.backingMap(el, l)
		h := e.heapGet(st, name, srt)
		arrSort := fmt.Sprintf("(Array %s %s)", e.ar.idxSort(), l.Sort)
		old := e.vc.define("dsto", arrSort, fmt.Sprintf("(select %s %s)", h, dst.Base))
		na := e.vc.declare("dstn", arrSort)
		q := e.vc.fresh("q")
		rel := e.idxSub(q, dst.Off)
		inr := and(e.idxLe(dst.Off, q), e.idxLt(q, e.idxAdd(dst.Off, n)))
		e.vc.assume("true", fmt.Sprintf("(forall ((%s %s)) (! (= (select %s %s) (ite %s %s (select %s %s))) :pattern ((select %s %s))))",
			q, e.ar.idxSort(), na, q, inr, srcAt(i, rel), old, q, na, q))
		e.heapSet(st, name, srt, fmt.Sprintf("(store %s %s %s)", h, dst.Base, na))
	}
	return &Sc{n}
}

func (e *Engine) frameCheckRange(fr *Frame, st *State, el types.Type, base, lo, hi string) {
	c := e.curContract
	if c == nil || c.NoFrame || e.entryState == nil {
		return
	}
	allowed := or(fmt.Sprintf("(> %s %s)", base, e.entryState.wm), e.idxLe(hi, lo))
	for _, m := range e.topMods {
		if m.kind == "elems" && m.elKey == e.typeKey(el) {
			allowed = or(allowed, and(fmt.Sprintf("(= %s %s)", base, m.ref), and(e.idxLe(m.lo, lo), e.idxLe(hi, m.hi))))
		}
	}
	e.vc.oblige(e.oname(fr, "frame:M_"+e.typeKey(el)), st.pc, allowed, "range write outside the modifies clause")
	e.loopFrameCheckRange(fr, st, el, base, lo, hi)
}

func (e *Engine) builtinAppend(fr *Frame, st *State, c *ssa.CallCommon, args []SV) SV {
	s := args[0].(*SliceSV)
	el := c.Args[0].Type().Underlying().(*types.Slice).Elem()
	lv := e.leaves(el)
	var addLen string
	var addAt func(li int, j string) string
	if ts, ok := args[1].(*SliceSV); ok {
		addLen = ts.Len
		arrs := make([]string, len(lv))
		for i, l := range lv {
			name, srt := e.backingMap(el, l)
			arrs[i] = e.vc.define("app", fmt.Sprintf("(Array %s %s)", e.ar.idxSort(), l.Sort), fmt.Sprintf("(select %s %s)", e.heapGet(st, name, srt), ts.Base))
		}
		addAt = func(li int, j string) string { return fmt.Sprintf("(select %s %s)", arrs[li], e.idxAdd(ts.Off, j)) }
	} else {
		str := args[1].(*Sc).T
		addLen = e.vc.define("slen", e.ar.idxSort(), e.strLenIdx(str))
		addAt = func(li int, j string) string { return e.strAt(str, j) }
	}
	newLen := e.vc.define("nlen", e.ar.idxSort(), e.idxAdd(s.Len, addLen))
	inplace := e.vc.define("inplace", "Bool", e.idxLe(newLen, s.Cap))
	fresh := e.allocRef(st, "append")
	newCap := e.vc.declare("ncap", e.ar.idxSort())
	e.vc.assume("true", e.idxLe(newLen, newCap))
	if e.ar.mode == ModeInt {
		e.vc.assume("true", e.ar.InRange(newCap, 64, true))
	}
	if !e.syntacticallyFresh(s.Base) {
		// in-place append writes s[len:newLen] of the old backing array
		saved := st.pc
		st.pc = e.vc.define("pc", "Bool", and(saved, inplace))
		e.frameCheckRange(fr, st, el, s.Base, e.idxAdd(s.Off, s.Len), e.idxAdd(s.Off, newLen))
		st.pc = saved
	}
	for i, l := range lv {
		name, srt := e.backingMap(el, l)
		h := e.heapGet(st, name, srt)
		arrSort := fmt.Sprintf("(Array %s %s)", e.ar.idxSort(), l.Sort)
		old := e.vc.define("apo", arrSort, fmt.Sprintf("(select %s %s)", h, s.Base))
		// in place
		na := e.vc.declare("apn", arrSort)
		q := e.vc.fresh("q")
		lo := e.idxAdd(s.Off, s.Len)
		inr := and(e.idxLe(lo, q), e.idxLt(q, e.idxAdd(s.Off, newLen)))
		e.vc.assume("true", fmt.Sprintf("(forall ((%s %s)) (! (= (select %s %s) (ite %s %s (select %s %s))) :pattern ((select %s %s))))",
			q, e.ar.idxSort(), na, q, inr, addAt(i, e.idxSub(q, lo)), old, q, na, q))
		// fresh copy
		nf := e.vc.declare("apf", arrSort)
		q2 := e.vc.fresh("q")
		e.vc.assume("true", fmt.Sprintf("(forall ((%s %s)) (! (=> %s (= (select %s %s) (ite %s (select %s %s) %s))) :pattern ((select %s %s))))",
			q2, e.ar.idxSort(), and(e.idxLe(e.idxc(0), q2), e.idxLt(q2, newLen)), nf, q2, e.idxLt(q2, s.Len), old, e.idxAdd(s.Off, q2), addAt(i, e.idxSub(q2, s.Len)), nf, q2))
		e.heapSet(st, name, srt, fmt.Sprintf("(store (store %s %s (ite %s %s %s)) %s %s)", h, s.Base, inplace, na, old, fresh, nf))
	}
	return &SliceSV{
		Base: e.vc.define("abase", "Int", ite(inplace, s.Base, fresh)),
		Off:  e.vc.define("aoff", e.ar.idxSort(), ite(inplace, s.Off, e.idxc(0))),
		Len:  newLen,
		Cap:  e.vc.define("acap", e.ar.idxSort(), ite(inplace, s.Cap, newCap)),
	}
}

func (e *Engine) closedImplementers(it types.Type, m *types.Func) []*ssa.Function {
	n, ok := types.Unalias(it).(*types.Named)
	if !ok || n.Obj().Pkg() == nil || n.Obj().Exported() || !strings.HasPrefix(n.Obj().Pkg().Path(), modPath) {
		return nil
	}
	key := n.Obj().Pkg().Path() + "." + n.Obj().Name() + "." + m.Name()
	if v, ok := e.closedWorld[key]; ok {
		return v
	}
	iface := n.Underlying().(*types.Interface)
	p := e.spkgs[n.Obj().Pkg().Path()]
	var out []*ssa.Function
	if p != nil {
		names := p.Pkg.Scope().Names()
		for _, nm := range names {
			tn, ok := p.Pkg.Scope().Lookup(nm).(*types.TypeName)
			if !ok {
				continue
			}
			if _, isIface := tn.Type().Underlying().(*types.Interface); isIface {
				continue
			}
			for _, t := range []types.Type{tn.Type(), types.NewPointer(tn.Type())} {
				if !types.Implements(t, iface) {
					continue
				}
				ms := e.prog.MethodSets.MethodSet(t)
				sel := ms.Lookup(m.Pkg(), m.Name())
				if sel == nil {
					continue
				}
				if fn := e.prog.MethodValue(sel); fn != nil {
					// the receiver type of the dispatch is t itself
					out = append(out, fn)
				}
				break
			}
		}
	}
	e.closedWorld[key] = out
	return out
}

// havocClosureEffects havocs every heap location the closure (and the functions
// it calls, as far as they are visible and small) may write.
func matchPreserve(name string, pats []string) bool {
	n := strings.TrimPrefix(name, "F_")
	for _, p := range pats {
		if strings.HasSuffix(p, ".*") {
			t := strings.TrimSuffix(p, "*")
			if strings.HasPrefix(n, t) || strings.Contains(n, "_"+t) {
				return true
			}
			continue
		}
		if n == p || strings.HasSuffix(n, "_"+p) || strings.HasPrefix(n, p+".") || strings.Contains(n, "_"+p+".") {
			return true
		}
	}
	return false
}

func (e *Engine) havocWholeHeap(st *State, why string, preserved ...string) {
	// heap maps first touched after this point must be havocked too: another
	// generation pass with the then-known maps is needed
	e.anyLoopSeen = true
	if c := e.curContract; c != nil {
		for _, p := range c.Preserves {
			covered := false
			for _, q := range preserved {
				if q == p || (strings.HasSuffix(q, ".*") && strings.HasPrefix(p, strings.TrimSuffix(q, "*"))) {
					covered = true
				}
			}
			if !covered {
				e.preservedWrite(st, "F_"+p)
			}
		}
	}
	names := make([]string, 0, len(e.vc.heapSort))
	for name := range e.vc.heapSort {
		names = append(names, name)
	}
	sortStrings(names)
	for _, name := range names {
		if len(preserved) > 0 && matchPreserve(name, preserved) {
			continue
		}
		e.preservedWrite(st, name)
		st.heap[name] = e.vc.declare("HN_"+name, e.vc.heapSort[name])
		e.vc.written[name] = true
	}
	var gs []string
	for g := range st.ghost {
		gs = append(gs, g)
	}
	sortStrings(gs)
	for _, g := range gs {
		if matchPreserve("ghost("+g+")", preserved) {
			continue
		}
		if strings.HasPrefix(g, "held_") {
			// lock state of the executing function: a callee returns with the caller's locks as it found them
			e.vc.usedExt["a callee without a verified frame returns with the caller's mutexes in the state it found them (lock-state ghosts "+g+" survive such calls)"] = true
			continue
		}
		e.preservedWrite(st, "ghost("+g+")")
		st.ghost[g] = e.vc.declare("GN_"+g, e.ghostSort(g))
	}
	nwm := e.vc.declare("wm", "Int")
	e.vc.assume("true", fmt.Sprintf("(>= %s %s)", nwm, st.wm))
	st.wm = nwm
	e.vc.note(why + ": all heap and ghost state havocked at the call")
}

func (e *Engine) havocClosureEffects(fr *Frame, st *State, fv *FuncSV, seen map[*ssa.Function]bool, depth int) {
	fn := fv.Fn
	if seen[fn] || depth > 4 {
		return
	}
	seen[fn] = true
	for _, b := range fn.Blocks {
		for _, in := range b.Instrs {
			switch v := in.(type) {
			case *ssa.Store:
				root := v.Addr
				var fieldPath []*ssa.FieldAddr
				for {
					if fa, ok := root.(*ssa.FieldAddr); ok {
						fieldPath = append(fieldPath, fa)
						root = fa.X
						continue
					}
					if ia, ok := root.(*ssa.IndexAddr); ok {
						root = ia.X
						continue
					}
					break
				}
				switch r := root.(type) {
				case *ssa.FreeVar:
					// captured variable: its cell
					idx := -1
					for i, f := range fn.FreeVars {
						if f == r {
							idx = i
						}
					}
					if idx >= 0 && idx < len(fv.Bind) {
						if p, ok := fv.Bind[idx].(*PtrSV); ok {
							t := r.Type().(*types.Pointer).Elem()
							if p.Kind == pkLocal {
								st.cells[p.Cell] = e.freshSV(p.Cell.Typ, "cb_"+p.Cell.Name, st.pc, st)
							} else if len(fieldPath) == 0 {
								e.storeRaw(st, p, t, e.freshSV(t, "cb", st.pc, st))
							} else {
								panic(engErr("callback writes a field of a captured variable: unsupported"))
							}
						}
					}
				case *ssa.Alloc:
					// local of the callback: no outside effect
				default:
					// a field of something reachable from a parameter or a loaded pointer:
					// havoc the whole field map(s)
					if len(fieldPath) == 0 {
						panic(engErr("callback stores through an opaque pointer: unsupported (" + v.String() + ")"))
					}
					outer := fieldPath[len(fieldPath)-1]
					stT := outer.X.Type().Underlying().(*types.Pointer).Elem()
					var path []pathEl
					for i := len(fieldPath) - 1; i >= 0; i-- {
						path = append(path, pathEl{field: fieldPath[i].Field})
					}
					ft, suffix := e.typeAtPath(stT, path)
					for _, l := range e.leaves(ft) {
						name, srt, _ := e.heapMapFor(stT, suffix+l.Suffix, l.Sort)
						e.heapGet(st, name, srt)
						e.heapSet(st, name, srt, e.vc.declare("cbH_"+name, srt))
					}
				}
			case ssa.CallInstruction:
				if callee := v.Common().StaticCallee(); callee != nil && len(callee.Blocks) > 0 {
					if _, isIntr := intrinsics[funcKey(callee)]; !isIntr {
						if c, ok := e.db.Funcs[funcKey(callee)]; ok && len(c.Modifies) == 0 {
							continue
						}
						e.havocClosureEffects(fr, st, &FuncSV{Fn: callee}, seen, depth+1)
					}
				}
			}
		}
	}
}

func isBoolType(t types.Type) bool {
	b, ok := t.Underlying().(*types.Basic)
	return ok && b.Info()&types.IsBoolean != 0
}
