package main

// VC: the per-function verification-condition builder (SMT script prefix,
// assumptions, obligations) and the symbolic State.

import (
	"os"
	"fmt"
	"go/types"
	"math/big"
	"regexp"
	"sort"
	"strings"

	"golang.org/x/tools/go/ssa"
)

type Obligation struct {
	Name    string // fully qualified: <pkg>.<func>#<kind>
	Func    string
	Kind    string
	NDecl   int
	NAssert int
	PC      string
	Goal    string
	Mode    Mode
	Note    string
	Cover   bool // a reachability (cover) query: expected SAT
	// filled by the solver stage
	Result    string
	Solver    string
	Time      float64
	Model     string
	Script    string
	ModelVar  map[string]string // names worth reading from the model -> description
	vc        *VC
	goalFirst bool
	Props     []string // clause-level property tags (nil: every property of the function)
	PCParts   []string // disjuncts of PC (paths), tried one by one when the whole is not decided
	Extra     []string // declarations of the Skolem constants of the goal
}

type VC struct {
	e          *Engine
	fnName     string
	decls      []string
	asserts    []string
	obligs     []*Obligation
	nfresh     int
	strIDs     map[string]int
	strOrder   []string
	heapSort   map[string]string // heap map name -> sort of the map
	declared   map[string]bool
	typeIDs    map[string]int
	modelVar   map[string]string
	counters   map[string]int
	usedExt    map[string]bool // assumed contracts used
	notes      []string
	globals    map[*ssa.Global]string
	specDecl   map[string]bool
	defined    map[string]string // sort|term -> name (hash-consing of definitions)
	defTerm    map[string]string // name -> defining term (macros)
	assumed    map[string]bool   // assumptions already emitted
	qfacts     []qfact           // quantified assumptions, for explicit instantiation at Skolem constants
	boolNames  map[string]bool   // declared Bool constants
	boolDef    map[string]string // definitions of named Bool terms (reach conditions)
	written    map[string]bool   // heap maps written somewhere in this function (incl. inlined callees, callee frames)
	noDef      int
	noOblige   int
	ufs        map[string][2]interface{}
	noCover    int
	reads      []groundRead
	modelTerms []modelTerm
	replay     *replayInfo
}

func newVC(e *Engine, fnName string) *VC {
	vc := &VC{e: e, fnName: fnName, strIDs: map[string]int{}, heapSort: map[string]string{}, declared: map[string]bool{},
		typeIDs: map[string]int{}, modelVar: map[string]string{}, counters: map[string]int{}, usedExt: map[string]bool{},
		globals: map[*ssa.Global]string{}, specDecl: map[string]bool{}, written: map[string]bool{}, boolDef: map[string]string{}, defined: map[string]string{}, assumed: map[string]bool{}, defTerm: map[string]string{}, boolNames: map[string]bool{}}
	vc.decls = append(vc.decls,
		"(declare-sort Float 0)",
		"(declare-fun float_zero () Float)",
		"(declare-fun strlen (Int) Int)",
		"(declare-fun strat (Int Int) Int)",
		"(assert (forall ((s Int)) (! (>= (strlen s) 0) :pattern ((strlen s)))))",
	)
	return vc
}

func (vc *VC) fresh(prefix string) string {
	vc.nfresh++
	return fmt.Sprintf("%s!%d", sanitizeSym(prefix), vc.nfresh)
}

func sanitizeSym(s string) string {
	var b strings.Builder
	for _, c := range s {
		switch {
		case c >= 'a' && c <= 'z', c >= 'A' && c <= 'Z', c >= '0' && c <= '9', c == '_', c == '.', c == '$':
			b.WriteRune(c)
		default:
			b.WriteByte('_')
		}
	}
	return b.String()
}

// declare a fresh constant
func (vc *VC) declare(prefix, sort string) string {
	n := vc.fresh(prefix)
	if sort == "Bool" {
		vc.boolNames[n] = true
	}
	vc.decls = append(vc.decls, fmt.Sprintf("(declare-fun %s () %s)", n, sort))
	return n
}

func (vc *VC) declareNamed(name, sort string) string {
	if !vc.declared[name] {
		vc.declared[name] = true
		vc.decls = append(vc.decls, fmt.Sprintf("(declare-fun %s () %s)", name, sort))
	}
	return name
}

func (vc *VC) declareFun(name string, args []string, ret string) {
	if !vc.declared[name] {
		vc.declared[name] = true
		vc.decls = append(vc.decls, fmt.Sprintf("(declare-fun %s (%s) %s)", name, strings.Join(args, " "), ret))
	}
}

// define a named abbreviation for term (keeps scripts linear in size)
func (vc *VC) define(prefix, sort, term string) string {
	if vc.noDef > 0 {
		return term // inside a quantifier body: no top-level definitions over bound variables
	}
	if len(term) < 24 && !strings.Contains(term, " ") {
		return term
	}
	if prev, ok := vc.defined[sort+"|"+term]; ok {
		return prev // same term already named
	}
	n := vc.fresh(prefix)
	vc.defined[sort+"|"+term] = n
	if strings.HasPrefix(sort, "(Array ") {
		// arrays (heap maps, backing arrays) are named by a constant and an
		// equation rather than by a macro: macros are expanded inside quantifier
		// patterns, which makes the patterns illegal and the terms huge
		vc.decls = append(vc.decls, fmt.Sprintf("(declare-fun %s () %s)", n, sort), fmt.Sprintf("(assert (= %s %s))", n, term))
		return n
	}
	vc.decls = append(vc.decls, fmt.Sprintf("(define-fun %s () %s %s)", n, sort, term))
	if sort == "Bool" {
		vc.boolDef[n] = term
	}
	vc.defTerm[n] = term
	if strings.HasPrefix(term, "(select (select ") {
		if a := sexprArgs(term); len(a) == 2 {
			vc.reads = append(vc.reads, groundRead{arr: a[0], idx: a[1], declIdx: len(vc.decls)})
		}
	}
	if iv, ok := vc.e.ar.getIv(term); ok {
		vc.e.ar.setIv(n, iv.lo, iv.hi)
	}
	return n
}

// assume fact under reach condition pc
func (vc *VC) assume(pc, fact string) {
	if fact == "true" || vc.noDef > 0 {
		return
	}
	// conjunctions are asserted conjunct by conjunct (keeps the quantifier-free
	// parts usable when quantified assumptions are set aside)
	if strings.HasPrefix(fact, "(and ") {
		for _, a := range sexprArgs(fact) {
			vc.assume(pc, a)
		}
		return
	}
	var line string
	if pc == "true" {
		line = fmt.Sprintf("(assert %s)", fact)
	} else {
		line = fmt.Sprintf("(assert (=> %s %s))", pc, fact)
	}
	if vc.assumed[line] {
		return
	}
	vc.assumed[line] = true
	vc.decls = append(vc.decls, line)
	vc.collectForalls(fact, pc)
}

// ---- explicit instantiation of quantified assumptions ------------------------------

type qfact struct {
	guard   string // condition under which the fact holds
	q, sort string
	body    string
	declIdx int
}

func (vc *VC) collectForalls(fact, guard string) {
	switch {
	case strings.HasPrefix(fact, "(forall (("):
		args := sexprArgs(fact)
		if len(args) != 2 {
			return
		}
		binders := sexprList(args[0])
		if len(binders) != 1 {
			return
		}
		parts := sexprList(binders[0])
		if len(parts) != 2 || !(parts[1] == "Int" || parts[1] == "(_ BitVec 64)") {
			return
		}
		body := args[1]
		if strings.HasPrefix(body, "(! ") {
			if ba := sexprArgs(body); len(ba) >= 1 {
				body = ba[0]
			}
		}
		if len(vc.qfacts) < 400 {
			vc.qfacts = append(vc.qfacts, qfact{guard: guard, q: parts[0], sort: parts[1], body: body, declIdx: len(vc.decls)})
		}
	case strings.HasPrefix(fact, "(and "):
		for _, a := range sexprArgs(fact) {
			vc.collectForalls(a, guard)
		}
	case strings.HasPrefix(fact, "(=> "):
		args := sexprArgs(fact)
		if len(args) == 2 {
			vc.collectForalls(args[1], and(guard, args[0]))
		}
	}
}

// instancesFor returns instances of the recorded quantified assumptions at the
// given Skolem constants (and their neighbours). They are consequences of the
// assumptions, so adding them is sound; it spares the solver the matching.
func (vc *VC) instancesFor(sks []string, sorts []string, ndecl int) []string {
	var out []string
	for i, sk := range sks {
		var terms []string
		if sorts[i] == "Int" {
			terms = []string{sk, "(+ " + sk + " 1)", "(- " + sk + " 1)"}
		} else if sorts[i] == "(_ BitVec 64)" {
			terms = []string{sk, "(bvadd " + sk + " (_ bv1 64))", "(bvsub " + sk + " (_ bv1 64))"}
		} else {
			continue
		}
		for _, qf := range vc.qfacts {
			if qf.declIdx > ndecl || qf.sort != sorts[i] {
				continue
			}
			for _, t := range terms {
				if len(out) >= 90 {
					return out
				}
				out = append(out, fmt.Sprintf("(assert %s)", implies(qf.guard, replaceToken(qf.body, qf.q, t))))
			}
		}
	}
	return out
}

func (vc *VC) oblige(kind, pc, goal, note string) *Obligation {
	if vc.noOblige > 0 {
		// inside the evaluation of a contract expression (apply): no obligations
		return &Obligation{Name: "suppressed", vc: vc, Result: "unsat"}
	}
	vc.counters[kind]++
	name := kind
	if n := vc.counters[kind]; n > 1 || strings.HasSuffix(kind, "#") {
		if strings.HasSuffix(kind, "#") {
			name = fmt.Sprintf("%s%d", kind, n)
		} else {
			name = fmt.Sprintf("%s~%d", kind, n)
		}
	}
	// A reach condition that is a disjunction of paths (a merged state) can be
	// split: when the query on the whole condition is not decided, one query per
	// disjunct is tried (all must be discharged).
	parts := vc.splitPC(pc, 8)
	if goal == "false" || len(parts) <= 1 {
		parts = nil
	}
	sg, extra := vc.skolemize(goal)
	if len(extra) > 0 {
		var sks, sorts []string
		for _, d := range extra {
			f := strings.Fields(d) // (declare-fun NAME () SORT...)
			sks = append(sks, f[1])
			sorts = append(sorts, strings.TrimSuffix(strings.Join(f[3:], " "), ")"))
		}
		extra = append(extra, vc.instancesFor(sks, sorts, len(vc.decls))...)
		extra = append(extra, vc.instancesByMatching(sg, extra, sks, len(vc.decls))...)
	} else if goal != "false" && goal != "true" && len(vc.qfacts) > 0 {
		// ground goal: instantiate quantified assumptions at the goal's own array reads
		extra = append(extra, vc.instancesByMatching(sg, nil, nil, len(vc.decls))...)
	}
	o := &Obligation{Name: vc.fnName + "#" + name, Func: vc.fnName, Kind: name, NDecl: len(vc.decls), PC: pc, PCParts: parts, Goal: sg, Extra: extra, Mode: vc.e.ar.mode, Note: note, vc: vc}
	vc.obligs = append(vc.obligs, o)
	return o
}

// splitPC expands a reach condition into disjuncts (through named definitions,
// `or`, and one level of `and`), at most max of them.
func (vc *VC) splitPC(pc string, max int) []string {
	var rec func(t string, depth int) []string
	rec = func(t string, depth int) []string {
		if depth > 12 {
			return []string{t}
		}
		if d, ok := vc.boolDef[t]; ok {
			r := rec(d, depth+1)
			if len(r) == 1 {
				return []string{t}
			}
			return r
		}
		if strings.HasPrefix(t, "(or ") {
			args := sexprArgs(t)
			var out []string
			for _, a := range args {
				out = append(out, rec(a, depth+1)...)
			}
			return out
		}
		if strings.HasPrefix(t, "(and ") {
			args := sexprArgs(t)
			outs := []string{""}
			for _, a := range args {
				ra := rec(a, depth+1)
				if len(outs)*len(ra) > max {
					ra = []string{a}
				}
				var next []string
				for _, o := range outs {
					for _, x := range ra {
						if o == "" {
							next = append(next, x)
						} else {
							next = append(next, "(and "+o+" "+x+")")
						}
					}
				}
				outs = next
			}
			return outs
		}
		return []string{t}
	}
	r := rec(pc, 0)
	if len(r) <= 1 || len(r) > max {
		return []string{pc}
	}
	return r
}

// sexprArgs returns the arguments of "(op a b ...)".
func sexprArgs(t string) []string {
	body := t[1 : len(t)-1]
	i := strings.IndexByte(body, ' ')
	if i < 0 {
		return nil
	}
	body = body[i+1:]
	var out []string
	d := 0
	start := 0
	for j := 0; j < len(body); j++ {
		switch body[j] {
		case '(':
			d++
		case ')':
			d--
		case ' ':
			if d == 0 {
				if j > start {
					out = append(out, body[start:j])
				}
				start = j + 1
			}
		}
	}
	if start < len(body) {
		out = append(out, body[start:])
	}
	return out
}

func (vc *VC) cover(kind, pc string) {
	if vc.noCover > 0 {
		return
	}
	o := vc.oblige(kind, pc, "false", "cover: must be reachable (expected sat)")
	o.Cover = true
}

// relaxedScript drops every quantified assumption. A model of the relaxed query
// may be spurious; it is only used as a candidate input that is then replayed on
// the real code (a refutation is trusted only if the replay confirms it).
func (o *Obligation) relaxedScript() string {
	full := o.script(true)
	var b strings.Builder
	for _, ln := range strings.Split(full, "\n") {
		if strings.HasPrefix(ln, "(assert ") && !strings.HasPrefix(ln, "(assert (not ") && (strings.Contains(ln, "(forall ") || strings.Contains(ln, "(exists ")) {
			continue
		}
		b.WriteString(ln)
		b.WriteByte('\n')
	}
	return b.String()
}

// groundScript: the query without any quantified assumption (explicit instances
// stay). Sound for unsat answers only.
func (o *Obligation) groundScript() string {
	full := o.script(false)
	var b strings.Builder
	for _, ln := range strings.Split(full, "\n") {
		if strings.HasPrefix(ln, "(assert ") && !strings.HasPrefix(ln, "(assert (not ") && (strings.Contains(ln, "(forall ") || strings.Contains(ln, "(exists ")) {
			continue
		}
		b.WriteString(ln)
		b.WriteByte('\n')
	}
	return b.String()
}

func (o *Obligation) script(withModel bool) string {
	var b strings.Builder
	b.WriteString("(set-option :produce-models true)\n")
	b.WriteString("(set-logic ALL)\n")
	for _, d := range o.vc.ufDecls() {
		b.WriteString(d)
		b.WriteByte('\n')
	}
	for _, d := range o.vc.decls[:o.NDecl] {
		b.WriteString(d)
		b.WriteByte('\n')
	}
	for _, d := range o.Extra {
		b.WriteString(d)
		b.WriteByte('\n')
	}
	if o.goalFirst {
		// same query, other assertion order: quantifier instantiation in the
		// solvers is sensitive to it, so both orders race in the portfolio
		b.WriteString(fmt.Sprintf("(assert (not %s))\n", o.Goal))
		b.WriteString(fmt.Sprintf("(assert %s)\n", o.PC))
	} else {
		b.WriteString(fmt.Sprintf("(assert %s)\n", o.PC))
		b.WriteString(fmt.Sprintf("(assert (not %s))\n", o.Goal))
	}
	b.WriteString("(check-sat)\n")
	if withModel {
		var names []string
		for _, mt := range o.vc.modelTerms {
			if mt.declIdx <= o.NDecl {
				names = append(names, mt.term)
			}
		}
		if len(names) > 0 {
			b.WriteString("(get-value (" + strings.Join(names, " ") + "))\n")
		}
	}
	return b.String()
}

func (vc *VC) declaredBefore(name string, n int) bool {
	pat1 := "(declare-fun " + name + " "
	pat2 := "(define-fun " + name + " "
	for _, d := range vc.decls[:n] {
		if strings.HasPrefix(d, pat1) || strings.HasPrefix(d, pat2) {
			return true
		}
	}
	return false
}

// ---- strings -----------------------------------------------------------

func (e *Engine) strConstID(s string) string {
	vc := e.vc
	if id, ok := vc.strIDs[s]; ok {
		return fmt.Sprintf("%d", id)
	}
	id := 1000 + len(vc.strIDs)
	vc.strIDs[s] = id
	vc.strOrder = append(vc.strOrder, s)
	if !strings.HasPrefix(s, "func:") && !strings.HasPrefix(s, "type:") {
		vc.decls = append(vc.decls, fmt.Sprintf("(assert (= (strlen %d) %d))", id, len(s)))
		if len(s) <= 64 {
			for i := 0; i < len(s); i++ {
				vc.decls = append(vc.decls, fmt.Sprintf("(assert (= (strat %d %d) %d))", id, i, s[i]))
			}
		}
	}
	return fmt.Sprintf("%d", id)
}

// ---- type ids ----------------------------------------------------------

func (e *Engine) typeID(t types.Type) string {
	key := types.TypeString(t, nil)
	vc := e.vc
	if id, ok := vc.typeIDs[key]; ok {
		return fmt.Sprintf("%d", id)
	}
	id := 1 + len(vc.typeIDs)
	vc.typeIDs[key] = id
	return fmt.Sprintf("%d", id)
}

// ---- state ---------------------------------------------------------------

type deferred struct {
	pc   string
	call *ssa.CallCommon
	args []SV
	fn   SV
	inst *ssa.Defer
}

type State struct {
	pc    string
	cells map[*Cell]SV
	heap  map[string]string
	wm    string // allocation watermark (Int)
	ghost map[string]string
}

func (s *State) clone() *State {
	n := &State{pc: s.pc, wm: s.wm, cells: make(map[*Cell]SV, len(s.cells)), heap: make(map[string]string, len(s.heap)), ghost: make(map[string]string, len(s.ghost))}
	for k, v := range s.cells {
		n.cells[k] = v
	}
	for k, v := range s.heap {
		n.heap[k] = v
	}
	for k, v := range s.ghost {
		n.ghost[k] = v
	}
	return n
}

func and(a, b string) string {
	if a == "true" {
		return b
	}
	if b == "true" {
		return a
	}
	if a == "false" || b == "false" {
		return "false"
	}
	return "(and " + a + " " + b + ")"
}

func or(a, b string) string {
	if a == "false" {
		return b
	}
	if b == "false" {
		return a
	}
	if a == "true" || b == "true" {
		return "true"
	}
	return "(or " + a + " " + b + ")"
}

func not(a string) string {
	if a == "true" {
		return "false"
	}
	if a == "false" {
		return "true"
	}
	if strings.HasPrefix(a, "(not ") && balancedTail(a[5:len(a)-1]) {
		return a[5 : len(a)-1]
	}
	return "(not " + a + ")"
}

func balancedTail(s string) bool {
	d := 0
	for i, c := range s {
		if c == '(' {
			d++
		} else if c == ')' {
			d--
			if d < 0 {
				return false
			}
			if d == 0 && i != len(s)-1 {
				return false
			}
		} else if c == ' ' && d == 0 {
			return false
		}
	}
	return d == 0
}

func implies(a, b string) string {
	if a == "true" {
		return b
	}
	if b == "true" {
		return "true"
	}
	return "(=> " + a + " " + b + ")"
}

func ite(c, a, b string) string {
	if a == b {
		return a
	}
	if c == "true" {
		return a
	}
	if c == "false" {
		return b
	}
	return "(ite " + c + " " + a + " " + b + ")"
}

// heap map access --------------------------------------------------------

func (e *Engine) heapGet(st *State, name, sort string) string {
	if t, ok := st.heap[name]; ok {
		return t
	}
	vc := e.vc
	if old, ok := vc.heapSort[name]; ok && old != sort {
		panic(engErr(fmt.Sprintf("heap map %s used at sorts %s and %s", name, old, sort)))
	}
	vc.heapSort[name] = sort
	n := vc.declareNamed("H0_"+sanitizeSym(name), sort)
	// the entry value of the map; all states share it until written
	return n
}

func (e *Engine) heapSet(st *State, name, sort, term string) {
	e.preservedWrite(st, name)
	e.vc.heapSort[name] = sort
	e.vc.written[name] = true
	st.heap[name] = e.vc.define("H_"+name, sort, term)
}

// preservedWrite: a write (store, or a callee's modifies/havoc) to a heap map that the
// verified function's contract lists under `preserves` must be unreachable.
func (e *Engine) preservedWrite(st *State, name string) {
	c := e.curContract
	if c == nil || len(c.Preserves) == 0 || !matchPreserve(name, c.Preserves) {
		return
	}
	e.vc.counters["preserves:"+name]++
	e.vc.oblige(fmt.Sprintf("preserves:%s#%d", sanitizeSym(name), e.vc.counters["preserves:"+name]), st.pc, "false",
		"the function (or a callee) may write "+name+", which its contract says it preserves")
}

// merge states (pcs assumed pairwise disjoint)
func (e *Engine) merge(states []*State) *State {
	if len(states) == 1 {
		return states[0]
	}
	vc := e.vc
	out := states[0].clone()
	for _, s := range states[1:] {
		c := s.pc // value from s when s.pc holds
		// cells (deterministic order: generated names must not depend on map iteration)
		cellList := make([]*Cell, 0, len(s.cells))
		for cell := range s.cells {
			cellList = append(cellList, cell)
		}
		sort.Slice(cellList, func(i, j int) bool { return cellList[i].id < cellList[j].id })
		for _, cell := range cellList {
			v := s.cells[cell]
			ov, ok := out.cells[cell]
			if !ok {
				out.cells[cell] = v
				continue
			}
			out.cells[cell] = e.mergeSV(cell.Typ, c, v, ov, cell.Name)
		}
		names := map[string]bool{}
		for k := range s.heap {
			names[k] = true
		}
		for k := range out.heap {
			names[k] = true
		}
		nameList := make([]string, 0, len(names))
		for k := range names {
			nameList = append(nameList, k)
		}
		sort.Strings(nameList)
		for _, k := range nameList {
			srt := vc.heapSort[k]
			a := e.heapGet(s, k, srt)
			b := e.heapGet(out, k, srt)
			if a != b {
				out.heap[k] = vc.define("H_"+k, srt, ite(c, a, b))
			}
		}
		gn := map[string]bool{}
		for k := range s.ghost {
			gn[k] = true
		}
		for k := range out.ghost {
			gn[k] = true
		}
		gnList := make([]string, 0, len(gn))
		for k := range gn {
			gnList = append(gnList, k)
		}
		sort.Strings(gnList)
		for _, k := range gnList {
			a, aok := s.ghost[k]
			b, bok := out.ghost[k]
			if aok && bok && a != b {
				out.ghost[k] = vc.define("G_"+k, e.ghostSort(k), ite(c, a, b))
			} else if aok && !bok {
				out.ghost[k] = a
			}
		}
		if s.wm != out.wm {
			out.wm = vc.define("wm", "Int", ite(c, s.wm, out.wm))
		}
		out.pc = vc.define("pc", "Bool", or(out.pc, s.pc))
	}
	return out
}

func isNilSV(v SV) bool {
	switch x := v.(type) {
	case *Sc:
		return x.T == "0"
	case *PtrSV:
		return x.Kind == pkHeap && x.Ref == "0" && len(x.Path) == 0
	}
	return false
}

func (e *Engine) mergeSV(t types.Type, c string, a, b SV, name string) SV {
	// an element pointer merged with nil or with another element pointer of the same
	// type stays an element pointer (backing reference 0 encodes nil)
	if _, isPtr := t.Underlying().(*types.Pointer); isPtr {
		pa, aok := a.(*PtrSV)
		pb, bok := b.(*PtrSV)
		aElem := aok && pa.Kind == pkElem && len(pa.Path) == 0
		bElem := bok && pb.Kind == pkElem && len(pb.Path) == 0
		if (aElem && (isNilSV(b) || bElem && types.Identical(pa.Root, pb.Root))) || (bElem && isNilSV(a)) {
			is := e.ar.idxSort()
			ra, ia, rb, ib := "0", e.idxc(0), "0", e.idxc(0)
			var root types.Type
			if aElem {
				ra, ia, root = pa.Ref, pa.Idx, pa.Root
			}
			if bElem {
				rb, ib, root = pb.Ref, pb.Idx, pb.Root
			}
			if ra == rb && ia == ib {
				return a
			}
			return &PtrSV{Kind: pkElem, Root: root, MaybeNil: true,
				Ref: e.vc.define(name+"b", "Int", ite(c, ra, rb)), Idx: e.vc.define(name+"i", is, ite(c, ia, ib))}
		}
	}
	// Go-side pointers/closures must agree
	if pa, ok := a.(*PtrSV); ok {
		if pb, ok := b.(*PtrSV); ok {
			if pa.Kind == pb.Kind && pa.Kind != pkHeap || pa.Kind == pkHeap && pb.Kind == pkHeap && (len(pa.Path) > 0 || len(pb.Path) > 0) {
				if ptrEqual(pa, pb) {
					return pa
				}
				panic(engErr("merge of distinct interior/local pointers in " + name))
			}
		}
	}
	if fa, ok := a.(*FuncSV); ok {
		if fb, ok := b.(*FuncSV); ok && fa.Fn == fb.Fn && fa.Term == fb.Term {
			return fa
		}
	}
	la := e.flatten(t, a)
	lb := e.flatten(t, b)
	lv := e.leaves(t)
	out := make([]string, len(la))
	for i := range la {
		if la[i] == lb[i] {
			out[i] = la[i]
		} else {
			out[i] = e.vc.define(name, lv[i].Sort, ite(c, la[i], lb[i]))
		}
	}
	return e.unflat(t, out)
}

func ptrEqual(a, b *PtrSV) bool {
	if a.Kind != b.Kind || a.Ref != b.Ref || a.Idx != b.Idx || a.Cell != b.Cell || a.Glob != b.Glob || len(a.Path) != len(b.Path) {
		return false
	}
	for i := range a.Path {
		if a.Path[i] != b.Path[i] {
			return false
		}
	}
	return true
}

func (e *Engine) ghostSort(name string) string {
	if s, ok := e.ghostSorts[name]; ok {
		return s
	}
	return "Int"
}

// fresh symbolic value of a type with range/typing assumptions
func (e *Engine) freshSV(t types.Type, prefix string, pc string, st *State) SV {
	lv := e.leaves(t)
	ts := make([]string, len(lv))
	for i, l := range lv {
		n := e.vc.declare(prefix+l.Suffix, l.Sort)
		ts[i] = n
		e.assumeLeafRange(l, n, pc, st)
	}
	return e.unflat(t, ts)
}

func (e *Engine) assumeLeafRange(l Leaf, n string, pc string, st *State) {
	if strings.HasPrefix(l.Sort, "(Array ") {
		if e.ar.mode == ModeInt && l.Kind == lkInt {
			w, s, _ := intInfo(l.Typ)
			q := e.vc.fresh("q")
			e.vc.assume("true", fmt.Sprintf("(forall ((%s %s)) (! %s :pattern ((select %s %s))))", q, e.ar.idxSort(), e.ar.InRange(fmt.Sprintf("(select %s %s)", n, q), w, s), n, q))
		}
		return
	}
	switch l.Kind {
	case lkInt:
		w, s, _ := intInfo(l.Typ)
		e.vc.assume("true", e.ar.InRange(n, w, s))
		if e.ar.mode == ModeInt {
			e.ar.setTypeIv(n, w, s)
		}
	case lkIdx:
		// off/len/cap are non-negative ints
		e.vc.assume("true", e.ar.Cmp(tokGEQ, n, e.ar.ConstI(0, 64, true), true))
		e.vc.assume("true", e.ar.InRange(n, 64, true))
		if e.ar.mode == ModeInt {
			e.ar.setIv(n, big.NewInt(0), new(big.Int).Sub(pow2(63), big.NewInt(1)))
		}
	case lkRef, lkVal:
		if st != nil {
			e.vc.assume("true", fmt.Sprintf("(and (<= 0 %s) (<= %s %s))", n, n, st.wm))
		} else {
			e.vc.assume("true", fmt.Sprintf("(<= 0 %s)", n))
		}
	case lkTag:
		e.vc.assume("true", fmt.Sprintf("(<= 0 %s)", n))
	}
}

// ufDecls declares the uninterpreted bit operators used by int-mode code, with
// the range of their results.
func (vc *VC) ufDecls() []string {
	var names []string
	for n := range vc.ufs {
		names = append(names, n)
	}
	sortStrings(names)
	var out []string
	a := &Arith{mode: ModeInt}
	for _, n := range names {
		w := vc.ufs[n][0].(int)
		s := vc.ufs[n][1].(bool)
		out = append(out, fmt.Sprintf("(declare-fun %s (Int Int) Int)", n))
		out = append(out, fmt.Sprintf("(assert (forall ((x Int) (y Int)) (! %s :pattern ((%s x y)))))", a.InRange(fmt.Sprintf("(%s x y)", n), w, s), n))
	}
	return out
}

// skolemize replaces universally quantified variables in positive positions of
// a goal (top level, right of =>, inside and) by fresh constants. The query
// asserts the negated goal, so this is ordinary Skolemization done here rather
// than left to the solver (which, with patterns attached, handles it poorly).
func (vc *VC) skolemize(goal string) (string, []string) {
	var decls []string
	var rec func(g string) string
	rec = func(g string) string {
		switch {
		case strings.HasPrefix(g, "(forall ("):
			// (forall ((q S) ...) BODY)
			args := sexprArgs(g)
			if len(args) != 2 {
				return g
			}
			binders := sexprList(args[0])
			body := args[1]
			if strings.HasPrefix(body, "(! ") {
				ba := sexprArgs(body)
				if len(ba) >= 1 {
					body = ba[0]
				}
			}
			for _, b := range binders {
				parts := sexprList(b)
				if len(parts) != 2 {
					return g
				}
				sk := vc.fresh("sk_" + strings.SplitN(parts[0], "!", 2)[0])
				decls = append(decls, fmt.Sprintf("(declare-fun %s () %s)", sk, parts[1]))
				body = replaceToken(body, parts[0], sk)
			}
			return rec(body)
		case strings.HasPrefix(g, "(=> "):
			args := sexprArgs(g)
			if len(args) != 2 {
				return g
			}
			return "(=> " + args[0] + " " + rec(args[1]) + ")"
		case strings.HasPrefix(g, "(and "):
			args := sexprArgs(g)
			out := make([]string, len(args))
			for i, a := range args {
				out[i] = rec(a)
			}
			return "(and " + strings.Join(out, " ") + ")"
		}
		return g
	}
	r := rec(goal)
	return r, decls
}

// sexprList returns the elements of "(a b c)".
func sexprList(t string) []string {
	return sexprArgs("(_ " + t[1:])
}

func replaceToken(s, tok, by string) string {
	var b strings.Builder
	for i := 0; i < len(s); {
		if strings.HasPrefix(s[i:], tok) {
			before := i == 0 || s[i-1] == ' ' || s[i-1] == '('
			j := i + len(tok)
			after := j == len(s) || s[j] == ' ' || s[j] == ')'
			if before && after {
				b.WriteString(by)
				i = j
				continue
			}
		}
		b.WriteByte(s[i])
		i++
	}
	return b.String()
}

var nameTokRe = regexp.MustCompile(`[A-Za-z_][A-Za-z0-9_.$]*![0-9]+`)

// patternSafe: a pattern may not contain logical connectives; macros are
// expanded by the solver, so names defined by such terms are excluded too.
func (vc *VC) patternSafe(t string, depth int) bool {
	for _, bad := range []string{"(ite ", "(not ", "(and ", "(or ", "(=> ", "(= ", "(<= ", "(< ", "(>= ", "(> "} {
		if strings.Contains(t, bad) {
			return false
		}
	}
	if depth > 6 {
		return false
	}
	for _, n := range nameTokRe.FindAllString(t, -1) {
		if d, ok := vc.defTerm[n]; ok && !vc.patternSafe(d, depth+1) {
			return false
		}
	}
	return true
}

// instancesAtIndexTerms instantiates the recorded quantified assumptions at the
// index terms of array reads in the goal that mention a Skolem constant (e.g.
// off+n+sk): these are the points at which copy/frame axioms are needed.
func (vc *VC) instancesAtIndexTerms(goal string, sks []string, ndecl int) []string {
	seen := map[string]bool{}
	var terms []string
	for i := 0; i < len(goal); i++ {
		if !strings.HasPrefix(goal[i:], "(select ") {
			continue
		}
		// parse "(select ARR IDX)"
		d := 0
		j := i
		for ; j < len(goal); j++ {
			if goal[j] == '(' {
				d++
			} else if goal[j] == ')' {
				d--
				if d == 0 {
					break
				}
			}
		}
		if j >= len(goal) {
			break
		}
		args := sexprArgs(goal[i : j+1])
		if len(args) != 2 {
			continue
		}
		idx := args[1]
		if seen[idx] || len(idx) > 400 || strings.Contains(idx, "(select ") {
			continue
		}
		has := false
		for _, sk := range sks {
			if containsTok(idx, sk) {
				has = true
			}
		}
		if !has {
			continue
		}
		skip := false
		for _, sk := range sks {
			if idx == sk {
				skip = true // already covered by instancesFor
			}
		}
		if skip {
			continue
		}
		seen[idx] = true
		terms = append(terms, idx)
		if len(terms) >= 6 {
			break
		}
	}
	var out []string
	for _, t := range terms {
		for _, qf := range vc.qfacts {
			if qf.declIdx > ndecl || qf.sort != "Int" {
				continue
			}
			if len(out) >= 120 {
				return out
			}
			out = append(out, fmt.Sprintf("(assert %s)", implies(qf.guard, replaceToken(qf.body, qf.q, t))))
		}
	}
	return out
}

func containsTok(s, tok string) bool {
	for i := 0; i+len(tok) <= len(s); i++ {
		if s[i:i+len(tok)] == tok {
			before := i == 0 || s[i-1] == ' ' || s[i-1] == '('
			after := i+len(tok) == len(s) || s[i+len(tok)] == ' ' || s[i+len(tok)] == ')'
			if before && after {
				return true
			}
		}
	}
	return false
}

// ---- explicit E-matching for array reads ---------------------------------------------
//
// For each quantified assumption, the index expressions of its array reads that
// mention the bound variable are templates (q, (+ A q), (+ q A)). Ground reads
// (from the goal, then from the instances produced so far) whose index has the
// same shape yield an instance. A few rounds emulate the chains the solver's own
// matching would follow, without leaving it to the solver's heuristics.

type selTerm struct{ arr, idx string }

func selectsOf(text string, max int) []selTerm {
	var out []selTerm
	for i := 0; i < len(text) && len(out) < max; i++ {
		if !strings.HasPrefix(text[i:], "(select ") {
			continue
		}
		d := 0
		j := i
		for ; j < len(text); j++ {
			if text[j] == '(' {
				d++
			} else if text[j] == ')' {
				d--
				if d == 0 {
					break
				}
			}
		}
		if j >= len(text) {
			break
		}
		args := sexprArgs(text[i : j+1])
		if len(args) == 2 {
			out = append(out, selTerm{args[0], args[1]})
		}
	}
	return out
}

// expandDefs returns the definitions of the names occurring in text, followed
// transitively to the given depth (used to find the array reads behind a goal).
func (vc *VC) expandDefs(text string, depth int) string {
	var out []string
	seen := map[string]bool{}
	cur := text
	for d := 0; d < depth; d++ {
		var next []string
		for _, tok := range strings.FieldsFunc(cur, func(r rune) bool { return r == '(' || r == ')' || r == ' ' }) {
			if seen[tok] {
				continue
			}
			seen[tok] = true
			if def, ok := vc.defTerm[tok]; ok && len(def) < 2000 {
				next = append(next, def)
			}
		}
		if len(next) == 0 {
			break
		}
		cur = strings.Join(next, " ")
		out = append(out, cur)
		if len(out) > 400 {
			break
		}
	}
	return strings.Join(out, " ")
}

func (vc *VC) sameTerm(a, b string) bool {
	if a == b {
		return true
	}
	// names are abbreviations: compare through their definitions
	for k := 0; k < 3; k++ {
		if d, ok := vc.defTerm[a]; ok {
			a = d
		}
		if d, ok := vc.defTerm[b]; ok {
			b = d
		}
		if a == b {
			return true
		}
	}
	return false
}

// flattenSum lists the summands of a (nested) sum, looking through abbreviations of sums.
func (vc *VC) flattenSum(t string, depth int) []string {
	if d, ok := vc.defTerm[t]; ok && strings.HasPrefix(d, "(+ ") && depth < 6 {
		t = d
	}
	if strings.HasPrefix(t, "(+ ") && depth < 8 {
		var out []string
		for _, a := range sexprArgs(t) {
			out = append(out, vc.flattenSum(a, depth+1)...)
		}
		return out
	}
	return []string{t}
}

// matchIndex matches an index template containing the bound variable q exactly once as
// a summand (q, or a sum A + q in any association and order) against a ground index
// term, modulo associativity and commutativity of + and the engine's abbreviations:
// the summands of A are removed from those of the ground term, the rest is q's value.
func (vc *VC) matchIndex(tmpl, q, ground string) (string, bool) {
	if tmpl == q {
		return ground, true
	}
	ts := vc.flattenSum(tmpl, 0)
	nq := 0
	var rest []string
	for _, t := range ts {
		if t == q {
			nq++
		} else {
			if containsTok(t, q) {
				return "", false
			}
			rest = append(rest, t)
		}
	}
	if nq != 1 {
		return "", false
	}
	gs := vc.flattenSum(ground, 0)
	used := make([]bool, len(gs))
	for _, r := range rest {
		found := false
		for k, g := range gs {
			if !used[k] && vc.sameTerm(r, g) {
				used[k] = true
				found = true
				break
			}
		}
		if !found {
			return "", false
		}
	}
	var left []string
	for k, g := range gs {
		if !used[k] {
			left = append(left, g)
		}
	}
	switch len(left) {
	case 0:
		return "0", true
	case 1:
		return left[0], true
	}
	return "(+ " + strings.Join(left, " ") + ")", true
}

// names of quantifier-bound variables (never valid in a ground instance)
var anyBoundVarRe = regexp.MustCompile(`(^|[ (])q(_[A-Za-z0-9_]+)?![0-9]+`)

// groundRead: a named two-level array read (an element of a backing array) made by the
// code or a contract; the instantiation points of quantified facts about that array.
type groundRead struct {
	arr, idx string
	declIdx  int
}

// sameArr: two row terms (select MAP REF) denote the same row syntactically (through
// abbreviations of REF).
func (vc *VC) sameArr(a, b string) bool {
	if a == b {
		return true
	}
	x, y := sexprArgs(a), sexprArgs(b)
	if len(x) != 2 || len(y) != 2 || !strings.HasPrefix(a, "(select ") || !strings.HasPrefix(b, "(select ") {
		return false
	}
	return x[0] == y[0] && vc.sameTerm(x[1], y[1])
}

func (vc *VC) instancesByMatching(goal string, already []string, sks []string, ndecl int) []string {
	type tmpl struct {
		qf  int
		idx string
		arr string
	}
	var tmpls []tmpl
	for k, qf := range vc.qfacts {
		if qf.declIdx > ndecl {
			continue
		}
		seen := map[string]bool{}
		for _, st := range selectsOf(qf.body, 40) {
			inner := false // the bound variable under a nested read: not an index template
			for _, in := range selectsOf(st.idx, 10) {
				if containsTok(in.arr, qf.q) || containsTok(in.idx, qf.q) {
					inner = true
				}
			}
			if containsTok(st.idx, qf.q) && !containsTok(st.arr, qf.q) && !inner && !seen[st.idx] {
				seen[st.idx] = true
				tmpls = append(tmpls, tmpl{k, st.idx, st.arr})
			}
		}
	}
	if len(sks) == 0 {
		// a ground goal: its own array reads (through the abbreviations) are the
		// instantiation points
		frontier0 := vc.expandDefs(goal, 3)
		goal = goal + " " + frontier0
	}
	mentions := func(t string) bool {
		if len(sks) == 0 {
			return true
		}
		for _, sk := range sks {
			if containsTok(t, sk) {
				return true
			}
		}
		return false
	}
	done := map[string]bool{}
	for _, a := range already {
		done[a] = true
	}
	var out []string
	frontier := []string{goal}
	for round := 0; round < 3 && len(frontier) > 0; round++ {
		var ground []string
		gseen := map[string]bool{}
		for _, text := range frontier {
			for _, st := range selectsOf(text, 200) {
				if mentions(st.idx) && len(st.idx) < 300 && !strings.Contains(st.idx, "(select ") && !gseen[st.idx] && !anyBoundVarRe.MatchString(st.idx) {
					gseen[st.idx] = true
					ground = append(ground, st.idx)
				}
			}
		}
		// index terms hidden behind merged values: (ite c x y) contributes x and y
		for k := 0; k < len(ground) && len(ground) < 400; k++ {
			g := ground[k]
			if d, ok := vc.defTerm[g]; ok {
				g = d
			}
			if strings.HasPrefix(g, "(ite ") {
				if a := sexprArgs(g); len(a) == 3 {
					for _, alt := range a[1:] {
						if !gseen[alt] && alt != "0" {
							gseen[alt] = true
							ground = append(ground, alt)
						}
					}
				}
			}
			// an ite among the summands of an index: one variant of the index per branch
			if sum := vc.flattenSum(ground[k], 0); len(sum) > 1 {
				for si, sm := range sum {
					d := sm
					if dd, ok := vc.defTerm[sm]; ok {
						d = dd
					}
					if !strings.HasPrefix(d, "(ite ") {
						continue
					}
					a := sexprArgs(d)
					if len(a) != 3 {
						continue
					}
					for _, br := range a[1:] {
						parts := append([]string(nil), sum...)
						parts[si] = br
						alt := "(+ " + strings.Join(parts, " ") + ")"
						if !gseen[alt] && len(alt) < 300 {
							gseen[alt] = true
							ground = append(ground, alt)
						}
					}
				}
			}
		}
		var next []string
		for _, g := range ground {
			for _, tp := range tmpls {
				qf := vc.qfacts[tp.qf]
				t, ok := vc.matchIndex(tp.idx, qf.q, g)
				if !ok || len(t) > 300 {
					continue
				}
				inst := fmt.Sprintf("(assert %s)", implies(qf.guard, replaceToken(qf.body, qf.q, t)))
				if done[inst] {
					continue
				}
				done[inst] = true
				out = append(out, inst)
				next = append(next, inst)
				if len(out) >= 160 {
					return out
				}
			}
		}
		frontier = next
	}
	// E-matching proper: every earlier read of the same row is an instantiation point
	// (z3 misses these when the index is an arithmetic term it has normalised)
	for _, tp := range tmpls {
		if !strings.HasPrefix(tp.arr, "(select ") || os.Getenv("GOVC_NOREADS") != "" {
			continue
		}
		qf := vc.qfacts[tp.qf]
		n := 0
		for k := len(vc.reads) - 1; k >= 0 && n < 24; k-- {
			r := vc.reads[k]
			if r.declIdx > ndecl || !vc.sameArr(tp.arr, r.arr) {
				continue
			}
			t, ok := vc.matchIndex(tp.idx, qf.q, r.idx)
			if !ok || len(t) > 300 {
				continue
			}
			inst := fmt.Sprintf("(assert %s)", implies(qf.guard, replaceToken(qf.body, qf.q, t)))
			if done[inst] {
				continue
			}
			done[inst] = true
			out = append(out, inst)
			n++
			if len(out) >= 240 {
				return out
			}
		}
	}
	return out
}
