package main

// Exact fixed-width integer semantics in two SMT encodings.
//
//   ModeInt: every Go integer is an SMT Int constrained to the range of its
//            type; every arithmetic result is reduced modulo 2^w (shifted for
//            signed types). Bitwise operators are only available with
//            constant power-of-two shapes.
//   ModeBV:  every Go integer of width w is (_ BitVec w).
//
// Neither encoding treats machine arithmetic as mathematical.

import (
	"fmt"
	"go/constant"
	"go/token"
	"go/types"
	"math/big"
	"strings"
)

type Mode int

const (
	ModeInt Mode = iota
	ModeBV
)

func (m Mode) String() string {
	if m == ModeBV {
		return "bv"
	}
	return "int"
}

// intInfo returns width and signedness of an integer-kinded basic type.
func intInfo(t types.Type) (w int, signed bool, ok bool) {
	b, isB := t.Underlying().(*types.Basic)
	if !isB {
		return 0, false, false
	}
	switch b.Kind() {
	case types.Int8:
		return 8, true, true
	case types.Int16:
		return 16, true, true
	case types.Int32:
		return 32, true, true
	case types.Int64, types.Int:
		return 64, true, true
	case types.Uint8:
		return 8, false, true
	case types.Uint16:
		return 16, false, true
	case types.Uint32:
		return 32, false, true
	case types.Uint64, types.Uint, types.Uintptr:
		return 64, false, true
	case types.UntypedInt, types.UntypedRune:
		return 64, true, true
	}
	return 0, false, false
}

func pow2(n int) *big.Int { return new(big.Int).Lsh(big.NewInt(1), uint(n)) }

type ivl struct{ lo, hi *big.Int }

type Arith struct {
	mode       Mode
	needUF     map[string][2]interface{} // uninterpreted bit operators used (int mode)
	iv         map[string]ivl            // conservative value intervals of int-mode terms
	resolve    func(string) string       // name -> defining term (looks through named abbreviations)
	wrapSigned bool                      // contract flag wraps_signed: signed arithmetic wraps (hash-like code)
	// ovf is set by BinOp when a signed result may leave its type's range: the
	// condition "result is in range". Code emits it as a safety obligation (signed
	// overflow is treated as a defect, like an out-of-range index); contracts read
	// signed arithmetic as mathematical.
	ovf string
}

func typeRange(w int, signed bool) ivl {
	if signed {
		return ivl{new(big.Int).Neg(pow2(w - 1)), new(big.Int).Sub(pow2(w-1), big.NewInt(1))}
	}
	return ivl{big.NewInt(0), new(big.Int).Sub(pow2(w), big.NewInt(1))}
}

func (a *Arith) setIv(t string, lo, hi *big.Int) {
	if a.iv == nil {
		a.iv = map[string]ivl{}
	}
	a.iv[t] = ivl{lo, hi}
}

func (a *Arith) setTypeIv(t string, w int, signed bool) {
	r := typeRange(w, signed)
	a.setIv(t, r.lo, r.hi)
}

func (a *Arith) getIv(t string) (ivl, bool) {
	if c, ok := isIntLiteral(t); ok {
		return ivl{c, c}, true
	}
	v, ok := a.iv[t]
	return v, ok
}

func (v ivl) within(r ivl) bool { return v.lo.Cmp(r.lo) >= 0 && v.hi.Cmp(r.hi) <= 0 }

func ivlOp(op token.Token, x, y ivl) (ivl, bool) {
	switch op {
	case token.ADD:
		return ivl{new(big.Int).Add(x.lo, y.lo), new(big.Int).Add(x.hi, y.hi)}, true
	case token.SUB:
		return ivl{new(big.Int).Sub(x.lo, y.hi), new(big.Int).Sub(x.hi, y.lo)}, true
	case token.MUL:
		c := []*big.Int{new(big.Int).Mul(x.lo, y.lo), new(big.Int).Mul(x.lo, y.hi), new(big.Int).Mul(x.hi, y.lo), new(big.Int).Mul(x.hi, y.hi)}
		lo, hi := c[0], c[0]
		for _, v := range c[1:] {
			if v.Cmp(lo) < 0 {
				lo = v
			}
			if v.Cmp(hi) > 0 {
				hi = v
			}
		}
		return ivl{lo, hi}, true
	}
	return ivl{}, false
}

func (a *Arith) intSort(w int) string {
	if a.mode == ModeBV {
		return fmt.Sprintf("(_ BitVec %d)", w)
	}
	return "Int"
}

func (a *Arith) idxSort() string { return a.intSort(64) }

func intLit(v *big.Int) string {
	if v.Sign() < 0 {
		return "(- " + new(big.Int).Neg(v).String() + ")"
	}
	return v.String()
}

// constant of integer type (value interpreted modulo 2^w).
func (a *Arith) Const(v *big.Int, w int, signed bool) string {
	if a.mode == ModeBV {
		m := new(big.Int).Mod(v, pow2(w))
		return fmt.Sprintf("(_ bv%s %d)", m.String(), w)
	}
	// normalise into the type's range
	m := new(big.Int).Mod(v, pow2(w))
	if signed && m.Cmp(pow2(w-1)) >= 0 {
		m.Sub(m, pow2(w))
	}
	return intLit(m)
}

func (a *Arith) ConstI(v int64, w int, signed bool) string {
	return a.Const(big.NewInt(v), w, signed)
}

// Range constraint for a fresh value of the type (int mode only; true in bv).
func (a *Arith) InRange(t string, w int, signed bool) string {
	if a.mode == ModeBV {
		return "true"
	}
	if signed {
		return fmt.Sprintf("(and (<= %s %s) (<= %s %s))", intLit(new(big.Int).Neg(pow2(w-1))), t, t, new(big.Int).Sub(pow2(w-1), big.NewInt(1)).String())
	}
	return fmt.Sprintf("(and (<= 0 %s) (<= %s %s))", t, t, new(big.Int).Sub(pow2(w), big.NewInt(1)).String())
}

func (a *Arith) wrap(t string, w int, signed bool) string {
	if signed {
		h := pow2(w - 1).String()
		return fmt.Sprintf("(- (mod (+ %s %s) %s) %s)", t, h, pow2(w).String(), h)
	}
	return fmt.Sprintf("(mod %s %s)", t, pow2(w).String())
}

func isIntLiteral(s string) (*big.Int, bool) {
	if len(s) == 0 {
		return nil, false
	}
	neg := false
	body := s
	if len(s) > 4 && s[:3] == "(- " && s[len(s)-1] == ')' {
		neg = true
		body = s[3 : len(s)-1]
	}
	for _, c := range body {
		if c < '0' || c > '9' {
			return nil, false
		}
	}
	v, ok := new(big.Int).SetString(body, 10)
	if !ok {
		return nil, false
	}
	if neg {
		v.Neg(v)
	}
	return v, true
}

func bvLiteral(s string) (*big.Int, bool) {
	var v string
	var w int
	if n, _ := fmt.Sscanf(s, "(_ bv%s %d)", &v, &w); n >= 1 {
		// Sscanf %s consumes up to whitespace
		b, ok := new(big.Int).SetString(v, 10)
		return b, ok
	}
	return nil, false
}

func (a *Arith) literal(s string) (*big.Int, bool) {
	if a.mode == ModeBV {
		return bvLiteral(s)
	}
	return isIntLiteral(s)
}

// BinOp: arithmetic and bitwise operations on two operands of the same type.
func (a *Arith) BinOp(op token.Token, x, y string, w int, signed bool) (string, error) {
	if a.mode == ModeBV {
		switch op {
		case token.ADD:
			return fmt.Sprintf("(bvadd %s %s)", x, y), nil
		case token.SUB:
			return fmt.Sprintf("(bvsub %s %s)", x, y), nil
		case token.MUL:
			return fmt.Sprintf("(bvmul %s %s)", x, y), nil
		case token.QUO:
			if signed {
				return fmt.Sprintf("(bvsdiv %s %s)", x, y), nil
			}
			return fmt.Sprintf("(bvudiv %s %s)", x, y), nil
		case token.REM:
			if signed {
				return fmt.Sprintf("(bvsrem %s %s)", x, y), nil
			}
			return fmt.Sprintf("(bvurem %s %s)", x, y), nil
		case token.AND:
			return fmt.Sprintf("(bvand %s %s)", x, y), nil
		case token.OR:
			return fmt.Sprintf("(bvor %s %s)", x, y), nil
		case token.XOR:
			return fmt.Sprintf("(bvxor %s %s)", x, y), nil
		case token.AND_NOT:
			return fmt.Sprintf("(bvand %s (bvnot %s))", x, y), nil
		}
		return "", fmt.Errorf("unsupported bv binop %v", op)
	}
	a.ovf = ""
	switch op {
	case token.ADD, token.SUB, token.MUL:
		sym := map[token.Token]string{token.ADD: "+", token.SUB: "-", token.MUL: "*"}[op]
		raw := fmt.Sprintf("(%s %s %s)", sym, x, y)
		xi, okx := a.getIv(x)
		yi, oky := a.getIv(y)
		if okx && oky {
			if ri, ok := ivlOp(op, xi, yi); ok && ri.within(typeRange(w, signed)) {
				a.setIv(raw, ri.lo, ri.hi)
				return raw, nil // cannot leave the range of its type: no reduction needed
			}
		}
		if signed && !a.wrapSigned {
			// exact value; the caller obliges "no signed overflow" (code) or reads it
			// mathematically (contracts)
			a.ovf = a.InRange(raw, w, signed)
			if okx && oky {
				if ri, ok := ivlOp(op, xi, yi); ok {
					a.setIv(raw, ri.lo, ri.hi)
				}
			}
			return raw, nil
		}
		r := a.wrap(raw, w, signed)
		a.setTypeIv(r, w, signed)
		return r, nil
	case token.QUO:
		var r string
		if !signed {
			r = fmt.Sprintf("(div %s %s)", x, y)
		} else {
			r = a.tdiv(x, y) // MinInt / -1 is the only overflow; reported via ovf
			if c, ok := isIntLiteral(y); !ok || c.Cmp(big.NewInt(-1)) == 0 {
				if !ok {
					a.ovf = a.InRange(r, w, signed)
				}
			}
		}
		if xi, ok := a.getIv(x); ok {
			if c, okc := isIntLiteral(y); okc && c.Sign() > 0 {
				lo := new(big.Int).Quo(xi.lo, c)
				hi := new(big.Int).Quo(xi.hi, c)
				if xi.lo.Sign() < 0 && !signed {
					lo = new(big.Int).Div(xi.lo, c)
				}
				a.setIv(r, lo, hi)
			} else if xi.lo.Sign() >= 0 {
				a.setIv(r, big.NewInt(0), xi.hi)
			}
		}
		return r, nil
	case token.REM:
		var r string
		if !signed {
			r = fmt.Sprintf("(mod %s %s)", x, y)
		} else {
			// a - b*trunc(a/b)
			r = fmt.Sprintf("(- %s (* %s %s))", x, y, a.tdiv(x, y))
		}
		if c, okc := isIntLiteral(y); okc && c.Sign() > 0 {
			m := new(big.Int).Sub(c, big.NewInt(1))
			if xi, ok := a.getIv(x); ok && xi.lo.Sign() >= 0 {
				a.setIv(r, big.NewInt(0), m)
			} else {
				a.setIv(r, new(big.Int).Neg(m), m)
			}
		}
		return r, nil
	case token.AND:
		// x & (2^k-1) == x mod 2^k for unsigned or non-negative
		if c, ok := isIntLiteral(y); ok && !signed {
			if k := lowMaskBits(c); k >= 0 {
				if xi, okx := a.getIv(x); okx && xi.lo.Sign() >= 0 && xi.hi.Cmp(c) <= 0 {
					return x, nil
				}
				r := fmt.Sprintf("(mod %s %s)", x, pow2(k).String())
				a.setIv(r, big.NewInt(0), c)
				return r, nil
			}
		}
		if c, ok := isIntLiteral(x); ok && !signed {
			if k := lowMaskBits(c); k >= 0 {
				if yi, oky := a.getIv(y); oky && yi.lo.Sign() >= 0 && yi.hi.Cmp(c) <= 0 {
					return y, nil
				}
				r := fmt.Sprintf("(mod %s %s)", y, pow2(k).String())
				a.setIv(r, big.NewInt(0), c)
				return r, nil
			}
		}
	}
	if op == token.OR || op == token.XOR {
		// (t * 2^k) | y  with 0 <= y < 2^k  is  t*2^k + y  (disjoint bits)
		for _, pr := range [][2]string{{x, y}, {y, x}} {
			hiName, lo := pr[0], pr[1]
			hi := hiName
			if a.resolve != nil {
				hi = a.resolve(hiName)
			}
			if strings.HasPrefix(hi, "(* ") && strings.HasSuffix(hi, ")") {
				args := strings.Fields(hi[3 : len(hi)-1])
				if len(args) >= 2 {
					if c, ok := isIntLiteral(args[len(args)-1]); ok && c.Sign() > 0 && new(big.Int).And(c, new(big.Int).Sub(c, big.NewInt(1))).Sign() == 0 {
						if li, ok := a.getIv(lo); ok && li.lo.Sign() >= 0 && li.hi.Cmp(c) < 0 {
							hi2, okh := a.getIv(hi)
							if !okh {
								hi2, okh = a.getIv(hiName)
							}
							if okh && hi2.lo.Sign() >= 0 {
								r := fmt.Sprintf("(+ %s %s)", hiName, lo)
								a.setIv(r, hi2.lo, new(big.Int).Add(hi2.hi, li.hi))
								return r, nil
							}
						}
					}
				}
			}
		}
	}
	// Other bitwise operators in the int encoding: uninterpreted functions of
	// the operand width (sound: any fact proved holds for every interpretation,
	// in particular the real operator). Bit-level reasoning needs the bv encoding.
	var name string
	switch op {
	case token.AND:
		name = "uand"
	case token.OR:
		name = "uor"
	case token.XOR:
		name = "uxor"
	case token.AND_NOT:
		name = "uandnot"
	default:
		return "", fmt.Errorf("operator %v needs the bv encoding (function is in int mode)", op)
	}
	sg := "u"
	if signed {
		sg = "s"
	}
	fn := fmt.Sprintf("%s%d%s", name, w, sg)
	a.needUF[fn] = [2]interface{}{w, signed}
	return fmt.Sprintf("(%s %s %s)", fn, x, y), nil
}

func lowMaskBits(c *big.Int) int {
	if c.Sign() < 0 {
		return -1
	}
	t := new(big.Int).Add(c, big.NewInt(1))
	if t.BitLen() > 0 && new(big.Int).And(t, c).Sign() == 0 {
		return t.BitLen() - 1
	}
	return -1
}

// truncated division on Ints
func (a *Arith) tdiv(x, y string) string {
	if c, ok := isIntLiteral(y); ok && c.Sign() > 0 {
		return fmt.Sprintf("(ite (>= %s 0) (div %s %s) (- (div (- %s) %s)))", x, x, y, x, y)
	}
	return fmt.Sprintf("(ite (>= %s 0) (ite (> %s 0) (div %s %s) (- (div %s (- %s)))) (ite (> %s 0) (- (div (- %s) %s)) (div (- %s) (- %s))))",
		x, y, x, y, x, y, y, x, y, x, y)
}

// Shift: x of (w,signed) shifted by count of (cw, csigned).
func (a *Arith) Shift(op token.Token, x, cnt string, w int, signed bool, cw int, csigned bool) (string, error) {
	if a.mode == ModeBV {
		// bring the count to width w, saturating
		var c string
		switch {
		case cw == w:
			c = cnt
		case cw < w:
			c = fmt.Sprintf("((_ zero_extend %d) %s)", w-cw, cnt)
		default:
			c = fmt.Sprintf("(ite (bvuge %s (_ bv%d %d)) (_ bv%d %d) ((_ extract %d 0) %s))", cnt, w, cw, w, w, w-1, cnt)
		}
		switch op {
		case token.SHL:
			return fmt.Sprintf("(bvshl %s %s)", x, c), nil
		case token.SHR:
			if signed {
				return fmt.Sprintf("(bvashr %s %s)", x, c), nil
			}
			return fmt.Sprintf("(bvlshr %s %s)", x, c), nil
		}
		return "", fmt.Errorf("bad shift op")
	}
	c, ok := isIntLiteral(cnt)
	if !ok {
		name := "ushl"
		if op == token.SHR {
			name = "ushr"
		}
		sg := "u"
		if signed {
			sg = "s"
		}
		fn := fmt.Sprintf("%s%d%s", name, w, sg)
		a.needUF[fn] = [2]interface{}{w, signed}
		return fmt.Sprintf("(%s %s %s)", fn, x, cnt), nil
	}
	if c.Sign() < 0 {
		return "", fmt.Errorf("negative constant shift")
	}
	k := int(c.Int64())
	if c.BitLen() > 16 || k >= w {
		if op == token.SHL || !signed {
			return "0", nil
		}
		return fmt.Sprintf("(ite (< %s 0) (- 1) 0)", x), nil
	}
	switch op {
	case token.SHL:
		raw := fmt.Sprintf("(* %s %s)", x, pow2(k).String())
		if xi, ok := a.getIv(x); ok {
			ri := ivl{new(big.Int).Mul(xi.lo, pow2(k)), new(big.Int).Mul(xi.hi, pow2(k))}
			if ri.within(typeRange(w, signed)) {
				a.setIv(raw, ri.lo, ri.hi)
				return raw, nil
			}
		}
		r := a.wrap(raw, w, signed)
		a.setTypeIv(r, w, signed)
		return r, nil
	case token.SHR:
		r := fmt.Sprintf("(div %s %s)", x, pow2(k).String()) // floor = arithmetic shift
		if xi, ok := a.getIv(x); ok {
			a.setIv(r, new(big.Int).Div(xi.lo, pow2(k)), new(big.Int).Div(xi.hi, pow2(k)))
		}
		return r, nil
	}
	return "", fmt.Errorf("bad shift op")
}

func (a *Arith) Neg(x string, w int, signed bool) string {
	if a.mode == ModeBV {
		return fmt.Sprintf("(bvneg %s)", x)
	}
	return a.wrap(fmt.Sprintf("(- %s)", x), w, signed)
}

func (a *Arith) Not(x string, w int, signed bool) (string, error) {
	if a.mode == ModeBV {
		return fmt.Sprintf("(bvnot %s)", x), nil
	}
	// ^x == -x-1 (signed), 2^w-1-x (unsigned)
	if signed {
		return fmt.Sprintf("(- (- %s) 1)", x), nil
	}
	return fmt.Sprintf("(- %s %s)", new(big.Int).Sub(pow2(w), big.NewInt(1)).String(), x), nil
}

func (a *Arith) Cmp(op token.Token, x, y string, signed bool) string {
	if op == token.EQL {
		return fmt.Sprintf("(= %s %s)", x, y)
	}
	if op == token.NEQ {
		return fmt.Sprintf("(not (= %s %s))", x, y)
	}
	if a.mode == ModeBV {
		var f string
		switch op {
		case token.LSS:
			f = "lt"
		case token.LEQ:
			f = "le"
		case token.GTR:
			f = "gt"
		case token.GEQ:
			f = "ge"
		}
		if signed {
			return fmt.Sprintf("(bvs%s %s %s)", f, x, y)
		}
		return fmt.Sprintf("(bvu%s %s %s)", f, x, y)
	}
	var f string
	switch op {
	case token.LSS:
		f = "<"
	case token.LEQ:
		f = "<="
	case token.GTR:
		f = ">"
	case token.GEQ:
		f = ">="
	}
	return fmt.Sprintf("(%s %s %s)", f, x, y)
}

// Convert integer x from (fw,fs) to (tw,ts).
func (a *Arith) Convert(x string, fw int, fs bool, tw int, ts bool) string {
	if a.mode == ModeBV {
		switch {
		case fw == tw:
			return x
		case fw > tw:
			return fmt.Sprintf("((_ extract %d 0) %s)", tw-1, x)
		default:
			if fs {
				return fmt.Sprintf("((_ sign_extend %d) %s)", tw-fw, x)
			}
			return fmt.Sprintf("((_ zero_extend %d) %s)", tw-fw, x)
		}
	}
	// int mode: value preserved when the source range fits in the target
	if fw < tw && (!fs || ts) {
		return x
	}
	if fw == tw && fs == ts {
		return x
	}
	if c, ok := isIntLiteral(x); ok {
		return a.Const(c, tw, ts)
	}
	if xi, ok := a.getIv(x); ok && xi.within(typeRange(tw, ts)) {
		return x
	}
	r := a.wrap(x, tw, ts)
	a.setTypeIv(r, tw, ts)
	return r
}

// ToMathInt gives the mathematical integer value of x (for spec-level Int).
func (a *Arith) ToMathInt(x string, w int, signed bool) string {
	if a.mode == ModeInt {
		return x
	}
	if signed {
		return fmt.Sprintf("(ite (bvslt %s (_ bv0 %d)) (- (bv2nat %s) %s) (bv2nat %s))", x, w, x, pow2(w).String(), x)
	}
	return fmt.Sprintf("(bv2nat %s)", x)
}

func constToBig(c constant.Value) (*big.Int, bool) {
	if c == nil {
		return nil, false
	}
	c = constant.ToInt(c)
	if c.Kind() != constant.Int {
		return nil, false
	}
	if v, ok := constant.Int64Val(c); ok {
		return big.NewInt(v), true
	}
	b, ok := new(big.Int).SetString(c.ExactString(), 10)
	return b, ok
}
