package main

import (
	"fmt"
	"os"
	"os/exec"
	"path/filepath"
	"strings"
	"sync"
	"time"
)

type solverSpec struct {
	name string
	bin  string
	args func(timeoutS int, file string) []string
}

var solvers = []solverSpec{
	{"z3-5.1", "z3-new", func(t int, f string) []string { return []string{fmt.Sprintf("-T:%d", t), "-smt2", f} }},
	{"z3-4.8", "z3", func(t int, f string) []string { return []string{fmt.Sprintf("-T:%d", t), "-smt2", f} }},
	{"cvc5-1.0", "cvc5", func(t int, f string) []string {
		return []string{fmt.Sprintf("--tlimit=%d", t*1000), "--lang=smt2", f}
	}},
}

type solveOut struct {
	result string // sat, unsat, unknown, timeout, error
	output string
	secs   float64
	solver string
}

// cpuSeconds reads the CPU time (user+system, all threads) a process has used so far.
func cpuSeconds(pid int) float64 {
	b, err := os.ReadFile(fmt.Sprintf("/proc/%d/stat", pid))
	if err != nil {
		return -1
	}
	t := string(b)
	if i := strings.LastIndex(t, ")"); i >= 0 {
		t = t[i+1:]
	}
	f := strings.Fields(t)
	if len(f) < 13 {
		return -1
	}
	var ut, st float64
	fmt.Sscan(f[11], &ut)
	fmt.Sscan(f[12], &st)
	return (ut + st) / 100
}

// runSolver gives the solver timeoutS seconds of CPU time (not wall-clock time: a loaded
// machine must not turn a proof into a timeout), with a generous wall-clock cap.
func runSolver(s solverSpec, file string, timeoutS int) solveOut {
	wallCap := time.Duration(timeoutS*8+10) * time.Second
	t0 := time.Now()
	cmd := exec.Command(s.bin, s.args(timeoutS*8+8, file)...)
	var buf strings.Builder
	cmd.Stdout = &buf
	cmd.Stderr = &buf
	killed := false
	if err := cmd.Start(); err != nil {
		return solveOut{result: "error", output: err.Error(), solver: s.name}
	}
	done := make(chan struct{})
	go func() { cmd.Wait(); close(done) }()
	tick := time.NewTicker(50 * time.Millisecond)
poll:
	for {
		select {
		case <-done:
			break poll
		case <-tick.C:
			if c := cpuSeconds(cmd.Process.Pid); c >= float64(timeoutS) || time.Since(t0) > wallCap {
				killed = true
				cmd.Process.Kill()
				<-done
				break poll
			}
		}
	}
	tick.Stop()
	out := buf.String()
	secs := time.Since(t0).Seconds()
	text := out
	first := ""
	for _, ln := range strings.Split(text, "\n") {
		ln = strings.TrimSpace(ln)
		if ln == "" || strings.HasPrefix(ln, "WARNING") {
			continue
		}
		first = ln
		break
	}
	res := "error"
	switch {
	case first == "unsat":
		res = "unsat"
	case first == "sat":
		res = "sat"
	case first == "unknown":
		res = "unknown"
	case first == "timeout" || killed || strings.Contains(text, "timeout") || strings.Contains(text, "interrupted"):
		res = "timeout"
	}
	return solveOut{result: res, output: text, secs: secs, solver: s.name}
}

// discharge runs the portfolio on one obligation. Expected: unsat (sat for covers).
func discharge(o *Obligation, dir string, timeoutS int, cross bool) {
	discharge1(o, dir, timeoutS, cross)
	if o.ok() || o.Cover || len(o.PCParts) == 0 || o.Result == "sat" {
		return
	}
	// not decided on the merged reach condition: try path by path
	whole := o.PC
	total := o.Time
	allOK := true
	for _, p := range o.PCParts {
		o.PC = p
		discharge1(o, dir, timeoutS, false)
		total += o.Time
		if !o.ok() {
			allOK = false
			break // o keeps the failing part's PC, result and model
		}
	}
	o.Time = total
	if allOK {
		o.PC = whole
		o.Result = "unsat"
		o.Solver = o.Solver + " (by paths)"
	}
}

func discharge1(o *Obligation, dir string, timeoutS int, cross bool) {
	script := o.script(true)
	file := filepath.Join(dir, sanitizeSym(o.Name)+".smt2")
	if len(file) > 200 {
		file = filepath.Join(dir, fmt.Sprintf("o%p.smt2", o))
	}
	os.WriteFile(file, []byte(script), 0o644)
	o.Script = file
	want := "unsat"
	if o.Cover {
		want = "sat"
	}
	decided := func(r string) bool { return r == "sat" || r == "unsat" }
	if o.Cover {
		// reachability guard: a quick look is enough (only a proof of
		// unreachability counts against the check)
		r := runSolver(solvers[0], file, 3)
		o.Result, o.Solver, o.Time, o.Model = r.result, r.solver, r.secs, r.output
		return
	}
	// stage 1: z3 5.1 with a short limit, on both assertion orders
	quick := 4
	if quick > timeoutS {
		quick = timeoutS
	}
	o.goalFirst = true
	file2 := strings.TrimSuffix(file, ".smt2") + ".b.smt2"
	os.WriteFile(file2, []byte(o.script(true)), 0o644)
	o.goalFirst = false
	ch1 := make(chan solveOut, 2)
	go func() { ch1 <- runSolver(solvers[0], file, quick) }()
	go func() { ch1 <- runSolver(solvers[0], file2, quick) }()
	first := <-ch1
	total := first.secs
	if !decided(first.result) {
		second := <-ch1
		total += second.secs
		if decided(second.result) {
			first = second
		}
	}
	best := first
	if !decided(first.result) && len(o.Extra) > 0 {
		// ground variant: every quantified assumption is dropped, only its explicit
		// instances (o.Extra) are kept. Fewer assumptions: an unsat answer is a proof.
		file3 := strings.TrimSuffix(file, ".smt2") + ".g.smt2"
		os.WriteFile(file3, []byte(o.groundScript()), 0o644)
		g := runSolver(solvers[0], file3, timeoutS)
		total += g.secs
		if g.result == "unsat" {
			g.solver = g.solver + " (ground instances)"
			o.Result, o.Solver, o.Time, o.Model = g.result, g.solver, total, g.output
			return
		}
	}
	if !decided(first.result) {
		// stage 2: race all three with the full limit
		ch := make(chan solveOut, 2*len(solvers))
		for _, s := range solvers {
			go func(s solverSpec) { ch <- runSolver(s, file, timeoutS) }(s)
			go func(s solverSpec) { ch <- runSolver(s, file2, timeoutS) }(s)
		}
		var outs []solveOut
		for i := 0; i < 2*len(solvers); i++ {
			r := <-ch
			outs = append(outs, r)
			total += r.secs
		}
		for _, r := range outs {
			if r.result == want {
				best = r
				break
			}
		}
		if best.result != want {
			for _, r := range outs {
				if decided(r.result) {
					best = r
					break
				}
			}
		}
		if !decided(best.result) {
			best = outs[0]
			for _, r := range outs {
				if r.result == "timeout" {
					best = r
				}
			}
		}
	} else if cross && first.result == want && !o.Cover {
		// thorough: a second solver family must agree where it can decide
		second := runSolver(solvers[2], file, timeoutS)
		total += second.secs
		if decided(second.result) && second.result != first.result {
			best = solveOut{result: "disagree", output: "z3: " + first.result + "\ncvc5: " + second.result + "\n" + second.output, solver: "z3-5.1+cvc5-1.0"}
		} else if second.result == first.result {
			best.solver = "z3-5.1+cvc5-1.0"
		}
	}
	o.Result = best.result
	o.Solver = best.solver
	o.Time = total
	o.Model = best.output
}

func dischargeAll(obs []*Obligation, dir string, timeoutS int, cross bool, par int) {
	var wg sync.WaitGroup
	sem := make(chan struct{}, par)
	for _, o := range obs {
		wg.Add(1)
		sem <- struct{}{}
		go func(o *Obligation) {
			defer wg.Done()
			defer func() { <-sem }()
			discharge(o, dir, timeoutS, cross)
		}(o)
	}
	wg.Wait()
}

func (o *Obligation) ok() bool {
	if o.Cover {
		// a cover fails only when the assumptions are proved contradictory;
		// unknown/timeout is inconclusive and recorded as such
		return o.Result != "unsat"
	}
	return o.Result == "unsat"
}
