package main

import (
	"encoding/json"
	"flag"
	"fmt"
	"os"
	"path/filepath"
	"sort"
	"strings"
	"time"
)

const modPath = "github.com/enfein/mieru/v3"

var (
	flagRepo    = flag.String("repo", "/repo", "repository root")
	flagVerif   = flag.String("verif", "/verif", "verif root")
	flagTimeout = flag.Int("timeout", 10, "per-query solver limit in seconds")
	flagPar     = flag.Int("par", 14, "parallel solver processes")
	flagKeep    = flag.Bool("keep", false, "keep the SMT scripts")
	flagV       = flag.Bool("v", false, "verbose")
	flagCross   = flag.Bool("cross", false, "require a second solver family to agree")
	flagOnly    = flag.String("only", "", "only obligations whose name contains this")
	flagEvDir   = flag.String("evdir", "", "write evidence and replay files under this directory instead of <verif>/evidence and <verif>/replays")
)

func main() {
	flag.Parse()
	args := flag.Args()
	if len(args) == 0 {
		fmt.Fprintln(os.Stderr, "usage: govc [flags] func <key>... | check <id> quick|thorough | list")
		os.Exit(2)
	}
	switch args[0] {
	case "func":
		os.Exit(cmdFunc(args[1:]))
	case "check":
		if len(args) < 3 {
			fmt.Fprintln(os.Stderr, "usage: govc check <id> quick|thorough")
			os.Exit(2)
		}
		os.Exit(cmdCheck(args[1], args[2]))
	case "list":
		os.Exit(cmdList())
	case "dump":
		os.Exit(cmdDump(args[1:]))
	}
	fmt.Fprintln(os.Stderr, "unknown command", args[0])
	os.Exit(2)
}

func loadDB() (*ContractDB, error) {
	db := newContractDB()
	specDir := filepath.Join(*flagVerif, "spec")
	ents, _ := os.ReadDir(specDir)
	for _, en := range ents {
		if strings.HasSuffix(en.Name(), ".spec") {
			trusted := strings.HasPrefix(en.Name(), "extern")
			if err := db.LoadFile(filepath.Join(specDir, en.Name()), "", trusted); err != nil {
				return nil, err
			}
		}
	}
	if err := db.LoadRepoContracts(*flagRepo, modPath); err != nil {
		return nil, err
	}
	return db, nil
}

func pkgPattern(pkgPath string) string {
	if pkgPath == modPath {
		return "."
	}
	if !strings.HasPrefix(pkgPath, modPath+"/") {
		return pkgPath // standard library or dependency
	}
	return "./" + strings.TrimPrefix(pkgPath, modPath+"/")
}

func cmdList() int {
	db, err := loadDB()
	if err != nil {
		fmt.Println("error:", err)
		return 2
	}
	var keys []string
	for k := range db.Funcs {
		keys = append(keys, k)
	}
	sort.Strings(keys)
	for _, k := range keys {
		c := db.Funcs[k]
		fmt.Printf("%-90s props=%v trusted=%v\n", k, c.Props, c.Trusted)
	}
	for _, n := range db.LemmaOrder {
		fmt.Printf("lemma %-84s props=%v\n", n, db.Lemmas[n].Props)
	}
	return 0
}

// resolve user-supplied short keys ("protocol.maxPaddingSize") to full keys
func resolveKeys(db *ContractDB, names []string) []string {
	var out []string
	for _, n := range names {
		if _, ok := db.Funcs[n]; ok {
			out = append(out, n)
			continue
		}
		if strings.HasPrefix(n, "lemma:") {
			out = append(out, n)
			continue
		}
		found := false
		for k := range db.Funcs {
			if strings.HasSuffix(k, "/"+n) || strings.HasSuffix(k, "."+n) {
				out = append(out, k)
				found = true
			}
		}
		if !found {
			fmt.Fprintln(os.Stderr, "no contract matches", n)
		}
	}
	sort.Strings(out)
	return out
}

func cmdFunc(names []string) int {
	db, err := loadDB()
	if err != nil {
		fmt.Println("error:", err)
		return 2
	}
	keys := resolveKeys(db, names)
	pkgs := map[string]bool{}
	for _, k := range keys {
		if strings.HasPrefix(k, "lemma:") {
			if l := db.Lemmas[strings.TrimPrefix(k, "lemma:")]; l != nil && l.PkgPath != "" {
				pkgs[pkgPattern(l.PkgPath)] = true
			}
			continue
		}
		pkgs[pkgPattern(db.Funcs[k].PkgPath)] = true
	}
	var pats []string
	for p := range pkgs {
		pats = append(pats, p)
	}
	if len(pats) == 0 {
		pats = []string{"./pkg/mathext"}
	}
	sort.Strings(pats)
	t0 := time.Now()
	e, err := loadEngine(*flagRepo, pats)
	if err != nil {
		fmt.Println("load error:", err)
		return 2
	}
	e.setDB(db)
	fmt.Printf("loaded %v in %.1fs\n", pats, time.Since(t0).Seconds())
	dir, _ := os.MkdirTemp("", "govc")
	if !*flagKeep {
		defer os.RemoveAll(dir)
	} else {
		fmt.Println("scripts in", dir)
	}
	bad := 0
	for _, k := range keys {
		var res *FuncResult
		if strings.HasPrefix(k, "lemma:") {
			l := db.Lemmas[strings.TrimPrefix(k, "lemma:")]
			if l == nil {
				fmt.Println("unknown lemma", k)
				continue
			}
			res = e.verifyLemma(l)
		} else {
			res = e.verifyFunc(db.Funcs[k])
		}
		if res.Err != "" {
			fmt.Printf("%s: ENGINE ERROR: %s\n", k, res.Err)
			bad++
			continue
		}
		obs := res.Obligs
		if *flagOnly != "" {
			var f []*Obligation
			for _, o := range obs {
				if strings.Contains(o.Name, *flagOnly) {
					f = append(f, o)
				}
			}
			obs = f
		}
		dischargeAll(obs, dir, *flagTimeout, *flagCross, *flagPar)
		nok := 0
		for _, o := range obs {
			status := "ok"
			if !o.ok() {
				status = "FAIL"
				bad++
			} else {
				nok++
			}
			if *flagV || status == "FAIL" {
				fmt.Printf("  %-4s %-8s %-12s %6.2fs %s   -- %s\n", status, o.Result, o.Solver, o.Time, o.Name, o.Note)
				if status == "FAIL" && o.Result == "sat" {
					fmt.Println(indent(modelSummary(o), "        "))
				}
			}
		}
		fmt.Printf("%s [%s]: %d/%d obligations ok; ext=%v\n", k, res.Mode, nok, len(obs), res.ExtUsed)
		for _, n := range res.Notes {
			fmt.Println("   note:", n)
		}
	}
	if bad > 0 {
		return 1
	}
	return 0
}

func indent(s, pre string) string {
	lines := strings.Split(strings.TrimRight(s, "\n"), "\n")
	for i := range lines {
		lines[i] = pre + lines[i]
	}
	return strings.Join(lines, "\n")
}

func modelSummary(o *Obligation) string {
	lines := strings.Split(o.Model, "\n")
	if len(lines) > 40 {
		lines = lines[:40]
	}
	var out []string
	for _, l := range lines[1:] {
		out = append(out, l)
	}
	return strings.Join(out, "\n")
}

func writeJSON(path string, v interface{}) error {
	b, err := json.MarshalIndent(v, "", " ")
	if err != nil {
		return err
	}
	os.MkdirAll(filepath.Dir(path), 0o755)
	return os.WriteFile(path, append(b, '\n'), 0o644)
}
