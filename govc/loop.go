package main

// Loop cutting: invariants are asserted on entry, the loop's modified state is
// havocked, the invariants are assumed, and they are re-asserted on every back
// edge. A loop without an invariant is an engine error.

import (
	"go/ast"
	"fmt"
	"go/types"
	"sort"
	"strings"

	"golang.org/x/tools/go/ssa"
)

type loopCtx struct {
	header *ssa.BasicBlock
	body   map[*ssa.BasicBlock]bool
	spec   *LoopSpec
	mods   []modEntry // explicit loop modifies (evaluated at loop entry)
	hasMod bool
	pre    *State // state just before the havoc
	wmPre  string
	ord    int
}

func (e *Engine) loopSpecFor(fr *Frame, h *ssa.BasicBlock) (*LoopSpec, int) {
	ord := fr.loopOrd[h]
	var c *Contract
	if fr.top {
		c = e.curContract
	} else {
		c = e.db.Funcs[funcKey(fr.fn)]
	}
	if c == nil {
		return nil, ord
	}
	return c.Loops[ord], ord
}

// cells (non-heap allocs) stored to inside the loop body, heap maps possibly written
func (e *Engine) loopModified(fr *Frame, body map[*ssa.BasicBlock]bool) (cells map[*ssa.Alloc]bool, heapAll bool) {
	cells = map[*ssa.Alloc]bool{}
	for b := range body {
		for _, in := range b.Instrs {
			switch v := in.(type) {
			case *ssa.Store:
				root := rootAlloc(v.Addr)
				if root != nil {
					// also a variable go/ssa places on the heap because a function literal captures
					// it: the engine may keep it as a local cell (allocEscapes), and that cell is
					// modified by the loop like any other
					cells[root] = true
				}
				if root == nil || root.Heap {
					heapAll = true
				}
			case *ssa.Alloc:
				cells[v] = true
				if v.Heap {
					heapAll = true
				}
			case *ssa.Call:
				heapAll = true
				// address of a local passed to a callee would make it Heap; nothing to do
			case *ssa.MapUpdate, *ssa.MakeSlice, *ssa.MakeMap, *ssa.MakeInterface, *ssa.Defer, *ssa.Go, *ssa.Convert, *ssa.MakeChan:
				heapAll = true
			}
		}
	}
	return
}

func rootAlloc(v ssa.Value) *ssa.Alloc {
	for {
		switch x := v.(type) {
		case *ssa.Alloc:
			return x
		case *ssa.FieldAddr:
			v = x.X
		case *ssa.IndexAddr:
			v = x.X
		default:
			return nil
		}
	}
}

func (e *Engine) loopEnv(fr *Frame, st *State) *Env {
	env := e.funcEnv(fr, st)
	env.fr = fr
	return env
}

// funcEnv: environment for clauses of the function executing in frame fr
func (e *Engine) funcEnv(fr *Frame, st *State) *Env {
	var c *Contract
	if fr.top {
		c = e.curContract
	} else {
		c = e.db.Funcs[funcKey(fr.fn)]
	}
	if c == nil {
		c = &Contract{}
	}
	entry := fr.entry
	env := e.contractEnv(c, fr.fn, fr.params, st)
	env.old = entry
	env.fr = fr
	return env
}

func (e *Engine) loopHeader(fr *Frame, h *ssa.BasicBlock, st *State) *State {
	spec, ord := e.loopSpecFor(fr, h)
	if spec == nil {
		panic(engErr(fmt.Sprintf("loop %d of %s has no invariant (every loop in a function under contract needs one)", ord, funcKey(fr.fn))))
	}
	e.anyLoopSeen = true
	body := naturalLoop(h)
	lc := &loopCtx{header: h, body: body, spec: spec, ord: ord}
	env := e.loopEnv(fr, st)
	// 1. invariants hold on entry
	for i, inv := range spec.Invariants {
		t, err := e.tryEvalBool(env, inv.Expr)
		if err != nil {
			panic(engErr(fmt.Sprintf("loop %d of %s: cannot translate invariant %q: %v", ord, funcKey(fr.fn), inv.Text, err)))
		}
		e.vc.oblige(e.oname(fr, fmt.Sprintf("loop%d:init:%d", ord, i+1)), st.pc, t, "invariant on entry: "+inv.Text).Props = inv.Props
	}
	// explicit loop modifies are evaluated in the pre-state
	for _, m := range spec.Modifies {
		lc.mods = append(lc.mods, e.evalModifies(env, m))
		lc.hasMod = true
	}
	if spec.NoMods {
		lc.hasMod = true
	}
	lc.pre = st.clone()
	// 2. havoc
	ns := st.clone()
	cells, heapAll := e.loopModified(fr, body)
	var modCells []*Cell
	for a := range cells {
		if cell := fr.cellOf[a]; cell != nil {
			modCells = append(modCells, cell) // (allocs inside the loop are initialised by their Alloc)
		}
	}
	sort.Slice(modCells, func(i, j int) bool { return modCells[i].id < modCells[j].id })
	for _, cell := range modCells {
		if _, live := ns.cells[cell]; !live {
			continue
		}
		if isDeferStack(cell.Typ) {
			continue
		}
		hv := e.freshSV(cell.Typ, "L"+fmt.Sprint(ord)+"_"+cell.Name, st.pc, ns)
		e.assumeWF(cell.Typ, hv) // any Go value of the type is well formed (slice headers)
		ns.cells[cell] = hv
	}
	if heapAll {
		nwm := e.vc.declare("wm", "Int")
		e.vc.assume("true", fmt.Sprintf("(>= %s %s)", nwm, st.wm))
		ns.wm = nwm
		names := make([]string, 0, len(e.vc.heapSort))
		for name := range e.vc.heapSort {
			names = append(names, name)
		}
		sortStrings(names)
		for _, name := range names {
			if e.knownWritten != nil && !e.knownWritten[name] {
				continue // no instruction of this function (or of its inlined callees) writes this map
			}
			srt := e.vc.heapSort[name]
			pre := e.heapGet(st, name, srt)
			if lc.hasMod {
				// explicit loop frame: only the listed locations are havocked (stores in
				// the body are checked against the list). Objects allocated by earlier
				// iterations lie above the pre-loop watermark, where the pre-loop map is
				// unconstrained anyway, so no quantified frame axiom is needed.
				cur := pre
				inner := arrayElemSort(srt)
				for _, m := range lc.mods {
					if !m.covers(name) {
						continue
					}
					if m.kind == "elems" && strings.HasPrefix(inner, "(Array ") {
						na := e.vc.declare("hvl", inner)
						q := e.vc.fresh("j")
						oldArr := fmt.Sprintf("(select %s %s)", cur, m.ref)
						e.vc.assume("true", fmt.Sprintf("(forall ((%s %s)) (! (=> (not %s) (= (select %s %s) (select %s %s))) :pattern ((select %s %s))))",
							q, e.ar.idxSort(), and(e.idxLe(m.lo, q), e.idxLt(q, m.hi)), na, q, oldArr, q, na, q))
						if e.ar.mode == ModeInt {
							if lvKind := leafIsSmallInt(inner); lvKind > 0 {
								e.vc.assume("true", fmt.Sprintf("(forall ((%s Int)) (! (and (<= 0 (select %s %s)) (<= (select %s %s) %d)) :pattern ((select %s %s))))", q, na, q, na, q, lvKind, na, q))
							}
						}
						cur = fmt.Sprintf("(store %s %s %s)", cur, m.ref, na)
					} else {
						nv := e.vc.declare("hvl", inner)
						cur = fmt.Sprintf("(store %s %s %s)", cur, m.ref, nv)
					}
				}
				if cur != pre {
					ns.heap[name] = e.vc.define("HL_"+name, srt, cur)
				}
				continue
			}
			nh := e.vc.declare("HL_"+name, srt)
			ns.heap[name] = nh
			e.assumeLoopFrame(fr, lc, name, srt, pre, nh, st)
		}
		lc.wmPre = st.wm
		// maps first touched inside the loop are covered by lazily applying the
		// same frame when they are first read (heapGet of an unknown map yields
		// the entry map, which is only sound if nothing wrote it: writes inside
		// the loop go through heapSet on this state, later iterations are covered
		// because every map written in the body is declared before the back edge
		// and the function is re-run to a fixed point of declared maps).
	}
	var gnames []string
	for name := range st.ghost {
		gnames = append(gnames, name)
	}
	sort.Strings(gnames)
	gmod, gall := e.ghostsModifiedIn(body, map[*ssa.Function]bool{}, 0)
	if gall {
		// the scan gave up on some callee: lock operations written in the loop body itself still count
		gmod = map[string]bool{}
		for b := range body {
			for _, in := range b.Instrs {
				if ci, ok := in.(ssa.CallInstruction); ok {
					if callee := ci.Common().StaticCallee(); callee != nil {
						if key := funcKey(callee); strings.HasPrefix(key, "sync.Mutex.") || strings.HasPrefix(key, "sync.RWMutex.") {
							for g := range e.ghostSorts {
								if strings.HasPrefix(g, "held_") {
									gmod[g] = true
								}
							}
						}
					}
				}
			}
		}
	}
	if c := e.curContract; c != nil && fr.top {
		for _, sa := range append(append([]*SiteAssert{}, c.SiteAsserts...), c.CallAssumes...) {
			if !sa.Ghost {
				continue
			}
			if be, ok := sa.Cl.Expr.(*ast.BinaryExpr); ok {
				if call, ok := be.X.(*ast.CallExpr); ok && len(call.Args) == 1 {
					if id, ok := call.Args[0].(*ast.Ident); ok {
						gmod[id.Name] = true
					}
				}
			}
		}
	}
	for _, name := range gnames {
		if (gall && !strings.HasPrefix(name, "held_")) || gmod[name] {
			ns.ghost[name] = e.vc.declare("GL_"+name, e.ghostSort(name))
		}
	}
	// 3. assume invariants
	env2 := e.loopEnv(fr, ns)
	for _, inv := range spec.Invariants {
		t, err := e.tryEvalBool(env2, inv.Expr)
		if err != nil {
			panic(engErr(fmt.Sprintf("loop %d: invariant %q: %v", ord, inv.Text, err)))
		}
		e.vc.assume(ns.pc, t)
	}
	for _, hnt := range spec.Hints {
		e.applyHint(env2, hnt, ns.pc)
	}
	if spec.Decreases != nil {
		tv := e.eval(env2, spec.Decreases.Expr)
		tv = e.materialize(tv, intT)
		fr.variantAt[h] = e.vc.define("variant", e.leaves(tv.T)[0].Sort, tv.V.(*Sc).T)
		fr.variantT = tv.T
	}
	fr.loops = append(fr.loops, lc)
	fr.loopEntry[h] = ns
	e.vc.cover(e.oname(fr, fmt.Sprintf("loop%d:cover", ord)), ns.pc)
	return ns
}

func ghostWrittenIn(body map[*ssa.BasicBlock]bool) bool {
	for b := range body {
		for _, in := range b.Instrs {
			if _, ok := in.(*ssa.Call); ok {
				return true
			}
		}
	}
	return false
}

// assumeLoopFrame: after havoc, locations the loop cannot write keep their
// pre-loop value. With an explicit loop `modifies`, everything outside it is
// unchanged (and stores in the body are checked against it). Without one, the
// function-level frame applies: objects that existed at function entry and are
// outside the function's modifies clause keep their entry value.
func (e *Engine) assumeLoopFrame(fr *Frame, lc *loopCtx, name, srt, pre, nh string, st *State) {
	q := e.vc.fresh("r")
	if lc.hasMod {
		// which entries cover this map?
		var conds []string
		elemsRanges := ""
		for _, m := range lc.mods {
			if !m.covers(name) {
				continue
			}
			if m.kind == "elems" {
				// same ref: only indices in range may change
				qi := e.vc.fresh("j")
				inner := arrayElemSort(srt)
				if strings.HasPrefix(inner, "(Array ") {
					elemsRanges += fmt.Sprintf(" (forall ((%s %s)) (! (=> (not %s) (= (select (select %s %s) %s) (select (select %s %s) %s))) :pattern ((select (select %s %s) %s))))",
						qi, e.ar.idxSort(), and(e.idxLe(m.lo, qi), e.idxLt(qi, m.hi)), nh, m.ref, qi, pre, m.ref, qi, nh, m.ref, qi)
				}
			}
			conds = append(conds, fmt.Sprintf("(= %s %s)", q, m.ref))
		}
		changed := "false"
		for _, c := range conds {
			changed = or(changed, c)
		}
		// objects allocated during the loop are not constrained
		e.vc.assume("true", e.frameAxiom(srt, q, st.wm, changed, nh, pre))
		if elemsRanges != "" {
			e.vc.decls = append(e.vc.decls, "(assert (and true"+elemsRanges+"))")
		}
		return
	}
	c := e.curContract
	if c == nil || c.NoFrame || e.entryState == nil {
		return
	}
	entryMap := e.heapGet(e.entryState, name, srt)
	changed := "false"
	elemsRanges := ""
	for _, m := range e.topMods {
		if !m.covers(name) {
			continue
		}
		if m.kind == "elems" {
			qi := e.vc.fresh("j")
			inner := arrayElemSort(srt)
			if strings.HasPrefix(inner, "(Array ") {
				elemsRanges += fmt.Sprintf(" (forall ((%s %s)) (! (=> (not %s) (= (select (select %s %s) %s) (select (select %s %s) %s))) :pattern ((select (select %s %s) %s))))",
					qi, e.ar.idxSort(), and(e.idxLe(m.lo, qi), e.idxLt(qi, m.hi)), nh, m.ref, qi, entryMap, m.ref, qi, nh, m.ref, qi)
			}
		}
		changed = or(changed, fmt.Sprintf("(= %s %s)", q, m.ref))
	}
	e.vc.assume("true", e.frameAxiom(srt, q, e.entryState.wm, changed, nh, entryMap))
	if elemsRanges != "" {
		e.vc.decls = append(e.vc.decls, "(assert (and true"+elemsRanges+"))")
	}
}

func (e *Engine) loopBack(fr *Frame, h *ssa.BasicBlock, st *State) {
	spec, ord := e.loopSpecFor(fr, h)
	if spec == nil {
		panic(engErr("back edge to a loop without invariant"))
	}
	env := e.loopEnv(fr, st)
	for i, inv := range spec.Invariants {
		t, err := e.tryEvalBool(env, inv.Expr)
		if err != nil {
			panic(engErr(fmt.Sprintf("loop %d: invariant %q at back edge: %v", ord, inv.Text, err)))
		}
		e.vc.oblige(e.oname(fr, fmt.Sprintf("loop%d:preserve:%d", ord, i+1)), st.pc, t, "invariant preserved: "+inv.Text).Props = inv.Props
	}
	if spec.Decreases != nil {
		tv := e.materialize(e.eval(env, spec.Decreases.Expr), intT)
		_, s, _ := intInfo(tv.T)
		v0 := fr.variantAt[h]
		w, _, _ := intInfo(tv.T)
		goal := and(e.ar.Cmp(tokGEQ, v0, e.ar.ConstI(0, w, s), s), e.ar.Cmp(tokLSS, tv.V.(*Sc).T, v0, s))
		e.vc.oblige(e.oname(fr, fmt.Sprintf("loop%d:decreases", ord)), st.pc, goal, "variant decreases and is bounded below: "+spec.Decreases.Text)
	}
}

func (e *Engine) applyHint(env *Env, h *Clause, pc string) {
	defer func() {
		if r := recover(); r != nil {
			panic(engErr(fmt.Sprintf("hint %q: %v", h.Text, r)))
		}
	}()
	switch {
	case strings.HasPrefix(h.Text, "unfold "):
		call, ok := h.Expr.(interface{})
		_ = ok
		ce, isCall := call.(*astCallExpr)
		if !isCall {
			sfail("unfold needs f(args)")
		}
		e.vc.assume(pc, e.unfoldSpec(env, ce))
	case strings.HasPrefix(h.Text, "use "):
		ce, isCall := h.Expr.(*astCallExpr)
		if !isCall {
			sfail("use needs lemma(args)")
		}
		e.vc.assume(pc, e.lemmaInstance(env, ce))
	default:
		// plain hint: an assertion that is checked and then assumed
		t := e.evalBool(env, h.Expr)
		e.vc.oblige("hint:"+sanitizeSym(h.Text), pc, t, "hint assertion")
		e.vc.assume(pc, t)
	}
}

// loop-level frame checks for loops with an explicit modifies clause
func (e *Engine) enclosingLoops(fr *Frame, b *ssa.BasicBlock) []*loopCtx {
	var out []*loopCtx
	for _, lc := range fr.loops {
		if lc.body[b] && lc.hasMod {
			out = append(out, lc)
		}
	}
	return out
}

func (e *Engine) loopFrameCheck(fr *Frame, st *State, name, ref string, p *PtrSV) {
	if fr == nil || fr.curBlock == nil {
		return
	}
	for _, lc := range e.enclosingLoops(fr, fr.curBlock) {
		allowed := fmt.Sprintf("(> %s %s)", ref, lc.pre.wm)
		for _, m := range lc.mods {
			if !m.covers(name) {
				continue
			}
			cond := fmt.Sprintf("(= %s %s)", ref, m.ref)
			if m.kind == "elems" && p.Kind == pkElem {
				cond = and(cond, and(e.idxLe(m.lo, p.Idx), e.idxLt(p.Idx, m.hi)))
			}
			allowed = or(allowed, cond)
		}
		e.vc.oblige(e.oname(fr, fmt.Sprintf("loop%d:frame:%s", lc.ord, name)), st.pc, allowed, "write outside the loop's modifies clause")
	}
}

func (e *Engine) loopFrameCheckRange(fr *Frame, st *State, el types.Type, base, lo, hi string) {
	if fr == nil || fr.curBlock == nil {
		return
	}
	for _, lc := range e.enclosingLoops(fr, fr.curBlock) {
		allowed := or(fmt.Sprintf("(> %s %s)", base, lc.pre.wm), e.idxLe(hi, lo))
		for _, m := range lc.mods {
			if m.kind == "elems" && m.elKey == e.typeKey(el) {
				allowed = or(allowed, and(fmt.Sprintf("(= %s %s)", base, m.ref), and(e.idxLe(m.lo, lo), e.idxLe(hi, m.hi))))
			}
		}
		e.vc.oblige(e.oname(fr, fmt.Sprintf("loop%d:frame:M_%s", lc.ord, e.typeKey(el))), st.pc, allowed, "range write outside the loop's modifies clause")
	}
}

// frameAxiom: objects up to the watermark that are not in the changed set keep
// their value. For maps of arrays (backing stores) the axiom is stated per
// element, so that the solver never has to reason about equality of arrays.
func (e *Engine) frameAxiom(srt, q, wm, changed, nh, pre string) string {
	inner := arrayElemSort(srt)
	if strings.HasPrefix(inner, "(Array ") {
		j := e.vc.fresh("j")
		return fmt.Sprintf("(forall ((%s Int) (%s %s)) (! (=> (and (<= %s %s) (not %s)) (= (select (select %s %s) %s) (select (select %s %s) %s))) :pattern ((select (select %s %s) %s))))",
			q, j, e.ar.idxSort(), q, wm, changed, nh, q, j, pre, q, j, nh, q, j)
	}
	return fmt.Sprintf("(forall ((%s Int)) (! (=> (and (<= %s %s) (not %s)) (= (select %s %s) (select %s %s))) :pattern ((select %s %s))))",
		q, q, wm, changed, nh, q, pre, q, nh, q)
}

// leafIsSmallInt: for backing arrays of bytes the havocked elements stay bytes.
// Returns the maximum value when the element sort is Int and the map is a byte
// map, 0 otherwise (range facts for other element types come from loads).
func leafIsSmallInt(inner string) int {
	return 0
}

// ghostsModifiedIn: the ghost variables that calls inside the given blocks may
// change (from the modifies clauses of contracts; inlined callees are scanned).
// all=true when some callee is opaque.
func (e *Engine) ghostsModifiedIn(body map[*ssa.BasicBlock]bool, seen map[*ssa.Function]bool, depth int) (map[string]bool, bool) {
	out := map[string]bool{}
	for b := range body {
		for _, in := range b.Instrs {
			ci, ok := in.(ssa.CallInstruction)
			if !ok {
				continue
			}
			cc := ci.Common()
			var c *Contract
			var callee *ssa.Function
			if cc.IsInvoke() {
				if n, ok := types.Unalias(cc.Value.Type()).(*types.Named); ok && n.Obj().Pkg() != nil {
					c = e.db.Funcs[n.Obj().Pkg().Path()+"."+n.Obj().Name()+"."+cc.Method.Name()]
				}
				if c == nil {
					continue // closed-world dispatch or intrinsic: scanned below only if static
				}
			} else {
				callee = cc.StaticCallee()
				if callee == nil {
					if _, isB := cc.Value.(*ssa.Builtin); isB {
						continue
					}
					return nil, true
				}
				key := funcKey(callee)
				if key == "time.Now" || key == "time.Since" || key == "time.Until" {
					out["now"] = true
					continue
				}
				if _, ok := intrinsics[key]; ok {
					if strings.HasPrefix(key, "sync.Mutex.") || strings.HasPrefix(key, "sync.RWMutex.") {
						for g := range e.ghostSorts {
							if strings.HasPrefix(g, "held_") {
								out[g] = true
							}
						}
					}
					continue
				}
				skip := false
				for pfx := range intrinsicPrefixes {
					if strings.HasPrefix(key, pfx) {
						skip = true
					}
				}
				if skip {
					continue
				}
				c = e.db.Funcs[key]
				if c != nil && c.Inline {
					c = nil
				}
			}
			if c != nil {
				for _, m := range c.Modifies {
					if call, ok := m.Expr.(*astCallExpr); ok {
						if id, ok := call.Fun.(*astIdent); ok && id.Name == "ghost" {
							out[call.Args[0].(*astIdent).Name] = true
						}
					}
				}
				continue
			}
			if callee == nil || len(callee.Blocks) == 0 || depth > 6 {
				return nil, true
			}
			if seen[callee] {
				continue
			}
			seen[callee] = true
			cb := map[*ssa.BasicBlock]bool{}
			for _, bb := range callee.Blocks {
				cb[bb] = true
			}
			sub, all := e.ghostsModifiedIn(cb, seen, depth+1)
			if all {
				return nil, true
			}
			for k := range sub {
				out[k] = true
			}
		}
	}
	return out, false
}
