package main

// Symbolic values: a Go-side mirror of the shape of a Go value whose leaves are
// SMT terms. Every value can be flattened to a list of leaves (used for heap
// loads/stores, state merging and havoc).

import (
	"fmt"
	"go/types"
	"strings"

	"golang.org/x/tools/go/ssa"
)

type SV interface{}

type Sc struct{ T string } // scalar leaf

type StructSV struct{ F []SV }

type SliceSV struct{ Base, Off, Len, Cap string }

type IfaceSV struct{ Tag, Val string }

// ArraySV is an array value. Leaves[i] is an SMT array (Idx -> leaf sort) for
// the i-th leaf of the element type.
type ArraySV struct {
	Leaves []string
}

type TupleSV struct{ E []SV }

type ptrKind int

const (
	pkHeap  ptrKind = iota // object ref (+ static field path)
	pkLocal                // local cell (+ static path)
	pkElem                 // element of a backing array (+ static field path inside the element)
	pkGlobal
)

type pathEl struct {
	field int    // field index, or -1 for an array index
	idx   string // array index term when field == -1
}

type PtrSV struct {
	Kind ptrKind
	Ref  string      // pkHeap: object reference; pkElem: backing reference
	Idx  string      // pkElem: element index
	Cell *Cell       // pkLocal
	Glob *ssa.Global // pkGlobal
	Root types.Type  // type of the root object (heap object type, element type, cell type)
	Path []pathEl
	// Either: pkHeap pointer whose term may also denote an element of a slice or
	// array of Root (terms below elemPtrLimit encode (backing, index) pairs)
	Either bool
	// MaybeNil: pkElem pointer merged with nil (Ref == 0 encodes nil)
	MaybeNil bool
}

type FuncSV struct {
	Fn   *ssa.Function
	Bind []SV
	Term string // when unknown: opaque Int
}

type Cell struct {
	Name string
	Typ  types.Type
	id   int
}

type Leaf struct {
	Suffix string
	Sort   string
	Typ    types.Type // Go type of the leaf where it is an integer/bool (for range constraints)
	Kind   leafKind
}

type leafKind int

const (
	lkInt leafKind = iota
	lkBool
	lkRef   // pointer/map/chan/func reference
	lkStr   // string id
	lkFloat // uninterpreted
	lkIdx   // slice off/len/cap
	lkTag   // interface tag
	lkVal   // interface payload
	lkTime  // time.Time as mathematical unix nanoseconds (sort Int in both modes)
)

const zeroTimeNs = "(- 62135596800000000000)"

func isTimeType(t types.Type) bool {
	n, ok := types.Unalias(t).(*types.Named)
	return ok && n.Obj().Pkg() != nil && n.Obj().Pkg().Path() == "time" && n.Obj().Name() == "Time"
}

func sanitize(s string) string {
	r := strings.NewReplacer("/", "_", ".", "_", "*", "P", "[", "_", "]", "_", " ", "", "(", "_", ")", "_", ",", "_", "{", "_", "}", "_", ";", "_")
	return r.Replace(s)
}

func (e *Engine) typeKey(t types.Type) string {
	switch tt := t.(type) {
	case *types.Named:
		if tt.Obj().Pkg() != nil {
			s := tt.Obj().Pkg().Name() + "_" + tt.Obj().Name()
			if tt.TypeArgs() != nil && tt.TypeArgs().Len() > 0 {
				s += "_" + sanitize(types.TypeString(tt, nil))
			}
			return s
		}
		return tt.Obj().Name()
	case *types.Alias:
		return e.typeKey(types.Unalias(tt))
	}
	return sanitize(types.TypeString(t, func(p *types.Package) string { return p.Name() }))
}

// leaves of a type in the current mode.
func (e *Engine) leaves(t types.Type) []Leaf {
	a := e.ar
	if isTimeType(t) || t == mathIntT {
		return []Leaf{{"", "Int", t, lkTime}}
	}
	if t == byteStreamT || t == u32StreamT {
		return []Leaf{{"", "(Array Int Int)", t, lkTime}}
	}
	switch u := t.Underlying().(type) {
	case *types.Basic:
		if w, _, ok := intInfo(u); ok {
			return []Leaf{{"", a.intSort(w), t, lkInt}}
		}
		switch {
		case u.Info()&types.IsBoolean != 0:
			return []Leaf{{"", "Bool", t, lkBool}}
		case u.Info()&types.IsString != 0:
			return []Leaf{{"", "Int", t, lkStr}}
		case u.Info()&types.IsFloat != 0, u.Info()&types.IsComplex != 0:
			return []Leaf{{"", "Float", t, lkFloat}}
		case u.Kind() == types.UnsafePointer, u.Kind() == types.UntypedNil:
			return []Leaf{{"", "Int", t, lkRef}}
		}
		return []Leaf{{"", "Int", t, lkRef}}
	case *types.Pointer, *types.Map, *types.Chan, *types.Signature:
		return []Leaf{{"", "Int", t, lkRef}}
	case *types.Slice:
		return []Leaf{{".base", "Int", t, lkRef}, {".off", a.idxSort(), t, lkIdx}, {".len", a.idxSort(), t, lkIdx}, {".cap", a.idxSort(), t, lkIdx}}
	case *types.Interface:
		return []Leaf{{".tag", "Int", t, lkTag}, {".val", "Int", t, lkVal}}
	case *types.Struct:
		var out []Leaf
		for i := 0; i < u.NumFields(); i++ {
			f := u.Field(i)
			for _, l := range e.leaves(f.Type()) {
				name := f.Name()
				if name == "_" {
					name = fmt.Sprintf("_blank%d", i)
				}
				out = append(out, Leaf{"." + name + l.Suffix, l.Sort, l.Typ, l.Kind})
			}
		}
		return out
	case *types.Array:
		var out []Leaf
		for _, l := range e.leaves(u.Elem()) {
			out = append(out, Leaf{"[]" + l.Suffix, fmt.Sprintf("(Array %s %s)", a.idxSort(), l.Sort), l.Typ, l.Kind})
		}
		return out
	case *types.Tuple:
		var out []Leaf
		for i := 0; i < u.Len(); i++ {
			for _, l := range e.leaves(u.At(i).Type()) {
				out = append(out, Leaf{fmt.Sprintf("#%d%s", i, l.Suffix), l.Sort, l.Typ, l.Kind})
			}
		}
		return out
	case *types.TypeParam:
		panic(engErr("uninstantiated type parameter " + t.String()))
	}
	panic(engErr("leaves: unsupported type " + t.String()))
}

// flatten an SV of type t into its leaf terms.
func (e *Engine) flatten(t types.Type, v SV) []string {
	if isTimeType(t) || t == mathIntT || t == byteStreamT || t == u32StreamT {
		return []string{v.(*Sc).T}
	}
	switch u := t.Underlying().(type) {
	case *types.Struct:
		sv, ok := v.(*StructSV)
		if !ok {
			panic(engErr(fmt.Sprintf("flatten: want struct for %s got %T", t, v)))
		}
		var out []string
		for i := 0; i < u.NumFields(); i++ {
			out = append(out, e.flatten(u.Field(i).Type(), sv.F[i])...)
		}
		return out
	case *types.Slice:
		s := v.(*SliceSV)
		return []string{s.Base, s.Off, s.Len, s.Cap}
	case *types.Interface:
		s := v.(*IfaceSV)
		return []string{s.Tag, s.Val}
	case *types.Array:
		return v.(*ArraySV).Leaves
	case *types.Tuple:
		tv := v.(*TupleSV)
		var out []string
		for i := 0; i < u.Len(); i++ {
			out = append(out, e.flatten(u.At(i).Type(), tv.E[i])...)
		}
		return out
	case *types.Pointer:
		return []string{e.ptrTerm(v)}
	case *types.Signature:
		switch f := v.(type) {
		case *FuncSV:
			if f.Term != "" {
				return []string{f.Term}
			}
			return []string{e.funcID(f)}
		case *Sc:
			return []string{f.T}
		}
	}
	switch s := v.(type) {
	case *Sc:
		return []string{s.T}
	case *PtrSV:
		return []string{e.ptrTerm(v)}
	}
	panic(engErr(fmt.Sprintf("flatten: unsupported %T for %s", v, t)))
}

func (e *Engine) funcID(f *FuncSV) string {
	if f.Fn == nil {
		return "0"
	}
	if len(f.Bind) > 0 {
		panic(engErr("closure value escapes into memory: " + f.Fn.String()))
	}
	return e.strConstID("func:" + f.Fn.String())
}

func (e *Engine) ptrTerm(v SV) string {
	switch p := v.(type) {
	case *Sc:
		return p.T
	case *PtrSV:
		if p.Kind == pkHeap && len(p.Path) == 0 {
			return p.Ref
		}
		if p.Kind == pkGlobal && len(p.Path) == 0 {
			return e.globalRef(p.Glob)
		}
		if p.Kind == pkElem && len(p.Path) == 0 && e.elemPointable[e.typeKey(p.Root)] {
			return e.elemPtrTerm(p.Ref, p.Idx)
		}
		if p.Kind == pkHeap && len(p.Path) > 0 {
			if id, ok := e.fieldPtrID(p.Root, p.Path); ok {
				return e.fieldPtrTerm(p.Ref, id)
			}
		}
		panic(engErr(fmt.Sprintf("interior/local pointer escapes (kind %d, path %v, root %v)", p.Kind, p.Path, p.Root)))
	}
	panic(engErr(fmt.Sprintf("ptrTerm: %T", v)))
}

// unflatten builds an SV of type t from leaf terms; returns remaining terms.
func (e *Engine) unflatten(t types.Type, ts []string) (SV, []string) {
	if isTimeType(t) || t == mathIntT || t == byteStreamT || t == u32StreamT {
		return &Sc{ts[0]}, ts[1:]
	}
	switch u := t.Underlying().(type) {
	case *types.Struct:
		sv := &StructSV{}
		for i := 0; i < u.NumFields(); i++ {
			var f SV
			f, ts = e.unflatten(u.Field(i).Type(), ts)
			sv.F = append(sv.F, f)
		}
		return sv, ts
	case *types.Slice:
		return &SliceSV{ts[0], ts[1], ts[2], ts[3]}, ts[4:]
	case *types.Interface:
		return &IfaceSV{ts[0], ts[1]}, ts[2:]
	case *types.Array:
		n := len(e.leaves(u.Elem()))
		return &ArraySV{Leaves: append([]string(nil), ts[:n]...)}, ts[n:]
	case *types.Tuple:
		tv := &TupleSV{}
		for i := 0; i < u.Len(); i++ {
			var f SV
			f, ts = e.unflatten(u.At(i).Type(), ts)
			tv.E = append(tv.E, f)
		}
		return tv, ts
	case *types.Pointer:
		return e.heapPtr(ts[0], u.Elem()), ts[1:]
	case *types.Signature:
		return &FuncSV{Term: ts[0]}, ts[1:]
	}
	return &Sc{ts[0]}, ts[1:]
}

func (e *Engine) unflat(t types.Type, ts []string) SV {
	v, rest := e.unflatten(t, ts)
	if len(rest) != 0 {
		panic(engErr("unflat: leftover leaves for " + t.String()))
	}
	return v
}

// zero value of a type
func (e *Engine) zeroLeaves(t types.Type) []string {
	var out []string
	for _, l := range e.leaves(t) {
		out = append(out, e.zeroOfLeaf(l))
	}
	return out
}

func (e *Engine) zeroOfLeaf(l Leaf) string {
	if strings.HasPrefix(l.Sort, "(Array ") {
		// constant array of the zero element
		inner := l
		inner.Sort = arrayElemSort(l.Sort)
		return fmt.Sprintf("((as const %s) %s)", l.Sort, e.zeroOfLeaf(inner))
	}
	switch l.Kind {
	case lkInt:
		w, s, _ := intInfo(l.Typ)
		return e.ar.ConstI(0, w, s)
	case lkBool:
		return "false"
	case lkIdx:
		return e.ar.ConstI(0, 64, true)
	case lkFloat:
		return "float_zero"
	case lkStr:
		return e.strConstID("")
	case lkTime:
		return zeroTimeNs
	}
	return "0"
}

// arrayElemSort: "(Array I E)" -> "E"
func arrayElemSort(s string) string {
	// skip "(Array " then one sort expr
	body := s[len("(Array ") : len(s)-1]
	depth := 0
	for i, c := range body {
		switch c {
		case '(':
			depth++
		case ')':
			depth--
		case ' ':
			if depth == 0 {
				return body[i+1:]
			}
		}
	}
	return body
}

func (e *Engine) zero(t types.Type) SV { return e.unflat(t, e.zeroLeaves(t)) }

type engErr string

func (e engErr) Error() string { return string(e) }

// Element pointers that escape into terms (merged with nil, passed to a callee under
// contract, stored): encoded as eptr(backing, index), an Int below elemPtrLimit with
// projections eptr_b/eptr_i. Only for element types in elemPointable (decided on the
// SSA of the loaded packages: some &s[i] of that struct type is used as a value).
const elemPtrLimit = "(- 1000000)"

func (e *Engine) elemPtrTerm(ref, idx string) string {
	vc := e.vc
	is := e.ar.idxSort()
	vc.declareFun("eptr", []string{"Int", is}, "Int")
	vc.declareFun("eptr_b", []string{"Int"}, "Int")
	vc.declareFun("eptr_i", []string{"Int"}, is)
	if ref == "0" {
		return "0"
	}
	// a backing reference of 0 encodes the nil pointer (see mergeSV)
	t := vc.define("ep", "Int", fmt.Sprintf("(ite (= %s 0) 0 (eptr %s %s))", ref, ref, idx))
	vc.declareFun("pkind", []string{"Int"}, "Int")
	vc.assume("true", fmt.Sprintf("(=> (not (= %s 0)) (and (= (eptr_b %s) %s) (= (eptr_i %s) %s) (< %s %s) (= (pkind %s) 1)))", ref, t, ref, t, idx, t, elemPtrLimit, t))
	return t
}

func (e *Engine) heapPtr(ref string, root types.Type) *PtrSV {
	p := &PtrSV{Kind: pkHeap, Ref: ref, Root: root}
	if (e.elemPointable[e.typeKey(root)] || len(e.fieldPointable[e.typeKey(root)]) > 0) && !strings.HasPrefix(ref, "wm!") && ref != "0" {
		p.Either = true
	}
	return p
}

// Field pointers that escape into terms (&x.f stored in memory or passed on): encoded as
// fptr(object, id) where id names a registered (struct type, field path); same negative
// range as element pointers, told apart by pkind (1 = element, 2 = field).
type fieldPtrEntry struct {
	root types.Type
	path []pathEl
	leaf types.Type
}

func fieldPathKey(e *Engine, root types.Type, path []pathEl) string {
	k := e.typeKey(root)
	for _, p := range path {
		if p.field < 0 {
			return ""
		}
		k += fmt.Sprintf(".%d", p.field)
	}
	return k
}

func (e *Engine) fieldPtrID(root types.Type, path []pathEl) (int, bool) {
	k := fieldPathKey(e, root, path)
	if k == "" {
		return 0, false
	}
	id, ok := e.fieldPtrIDs[k]
	return id, ok
}

func (e *Engine) fieldPtrTerm(ref string, id int) string {
	vc := e.vc
	vc.declareFun("fptr", []string{"Int", "Int"}, "Int")
	vc.declareFun("fptr_b", []string{"Int"}, "Int")
	vc.declareFun("fptr_k", []string{"Int"}, "Int")
	vc.declareFun("pkind", []string{"Int"}, "Int")
	t := vc.define("fp", "Int", fmt.Sprintf("(fptr %s %d)", ref, id))
	vc.assume("true", fmt.Sprintf("(and (= (fptr_b %s) %s) (= (fptr_k %s) %d) (< %s %s) (= (pkind %s) 2))", t, ref, t, id, t, elemPtrLimit, t))
	return t
}

type ptrAlt struct {
	cond string
	ptr  *PtrSV
}

// alternatives: the readings of an Either pointer other than "heap object", each with the
// condition selecting it; the heap reading is the default.
func (e *Engine) alternatives(p *PtrSV) (alts []ptrAlt, heap *PtrSV) {
	vc := e.vc
	is := e.ar.idxSort()
	vc.declareFun("pkind", []string{"Int"}, "Int")
	h := *p
	h.Either = false
	neg := fmt.Sprintf("(< %s %s)", p.Ref, elemPtrLimit)
	if e.elemPointable[e.typeKey(p.Root)] {
		vc.declareFun("eptr_b", []string{"Int"}, "Int")
		vc.declareFun("eptr_i", []string{"Int"}, is)
		el := &PtrSV{Kind: pkElem, Ref: fmt.Sprintf("(eptr_b %s)", p.Ref), Idx: fmt.Sprintf("(eptr_i %s)", p.Ref), Root: p.Root, Path: p.Path}
		alts = append(alts, ptrAlt{and(neg, fmt.Sprintf("(= (pkind %s) 1)", p.Ref)), el})
	}
	for _, id := range e.fieldPointable[e.typeKey(p.Root)] {
		ent := e.fieldPtrs[id]
		vc.declareFun("fptr_b", []string{"Int"}, "Int")
		vc.declareFun("fptr_k", []string{"Int"}, "Int")
		fp := &PtrSV{Kind: pkHeap, Ref: fmt.Sprintf("(fptr_b %s)", p.Ref), Root: ent.root,
			Path: append(append([]pathEl(nil), ent.path...), p.Path...)}
		alts = append(alts, ptrAlt{and(neg, and(fmt.Sprintf("(= (pkind %s) 2)", p.Ref), fmt.Sprintf("(= (fptr_k %s) %d)", p.Ref, id))), fp})
	}
	return alts, &h
}

// computeElemPointable scans the loaded packages for &s[i] expressions of struct
// element type whose value is used other than as the address of an immediate load,
// store or field access: pointers to such elements can reach pointer-typed variables.
func (e *Engine) computeElemPointable() {
	e.elemPointable = map[string]bool{}
	e.fieldPtrIDs = map[string]int{}
	e.fieldPointable = map[string][]int{}
	e.fieldPtrs = nil
	defer e.computeFieldPointable()
	var paths []string
	for p := range e.spkgs {
		paths = append(paths, p)
	}
	sortStrings(paths)
	for _, path := range paths {
		if !strings.HasPrefix(path, "github.com/enfein/mieru") {
			continue
		}
		for _, fn := range e.pkgFunctions(path) {
			for _, b := range fn.Blocks {
				for _, in := range b.Instrs {
					ia, ok := in.(*ssa.IndexAddr)
					if !ok {
						continue
					}
					pt, ok := ia.Type().Underlying().(*types.Pointer)
					if !ok {
						continue
					}
					if _, isStruct := pt.Elem().Underlying().(*types.Struct); !isStruct {
						continue
					}
					refs := ia.Referrers()
					if refs == nil {
						continue
					}
					for _, r := range *refs {
						switch u := r.(type) {
						case *ssa.FieldAddr:
							continue
						case *ssa.UnOp:
							continue // load
						case *ssa.Store:
							if u.Addr == ssa.Value(ia) && u.Val != ssa.Value(ia) {
								continue
							}
						case *ssa.DebugRef:
							continue
						}
						e.elemPointable[e.typeKey(pt.Elem())] = true
					}
				}
			}
		}
	}
}

// computeFieldPointable registers every &x.f (single field of a struct reached through a
// pointer) in the repository packages whose address is used as a value - stored, passed,
// returned, converted to an interface.
func (e *Engine) computeFieldPointable() {
	var paths []string
	for p := range e.spkgs {
		paths = append(paths, p)
	}
	sortStrings(paths)
	for _, path := range paths {
		if !strings.HasPrefix(path, "github.com/enfein/mieru") {
			continue
		}
		for _, fn := range e.pkgFunctions(path) {
			for _, b := range fn.Blocks {
				for _, in := range b.Instrs {
					fa, ok := in.(*ssa.FieldAddr)
					if !ok {
						continue
					}
					refs := fa.Referrers()
					if refs == nil {
						continue
					}
					escapes := false
					for _, r := range *refs {
						switch u := r.(type) {
						case *ssa.Store:
							if u.Val == ssa.Value(fa) {
								escapes = true
							}
						case *ssa.Call:
							// receiver/argument of a static call is handled symbolically (inlined or
							// contract environment); only atomic pointer stores keep the address
							if c := u.Common(); c.StaticCallee() != nil && strings.HasPrefix(funcKey(c.StaticCallee()), "sync/atomic.Pointer.") {
								for k, a := range c.Args {
									if k > 0 && a == ssa.Value(fa) {
										escapes = true
									}
								}
							}
						case *ssa.MakeInterface, *ssa.Return, *ssa.Phi:
							_ = u
							escapes = true
						}
					}
					if !escapes {
						continue
					}
					pt, ok := fa.X.Type().Underlying().(*types.Pointer)
					if !ok {
						continue
					}
					st, ok := pt.Elem().Underlying().(*types.Struct)
					if !ok {
						continue
					}
					root := pt.Elem()
					pth := []pathEl{{field: fa.Field}}
					k := fieldPathKey(e, root, pth)
					if _, dup := e.fieldPtrIDs[k]; dup {
						continue
					}
					id := len(e.fieldPtrs)
					leaf := st.Field(fa.Field).Type()
					e.fieldPtrs = append(e.fieldPtrs, fieldPtrEntry{root: root, path: pth, leaf: leaf})
					e.fieldPtrIDs[k] = id
					lk := e.typeKey(leaf)
					e.fieldPointable[lk] = append(e.fieldPointable[lk], id)
				}
			}
		}
	}
}
