package main

import (
	"strconv"
	"regexp"
	"fmt"
	"go/ast"
	"go/token"
	"go/types"
	"os"
	"runtime"
	"sort"
	"strings"

	"golang.org/x/tools/go/packages"
	"golang.org/x/tools/go/ssa"
	"golang.org/x/tools/go/ssa/ssautil"
)

type astCallExpr = ast.CallExpr
type astIdent = ast.Ident

type Engine struct {
	prog          *ssa.Program
	pkgs          []*packages.Package
	spkgs         map[string]*ssa.Package
	db            *ContractDB
	ar            *Arith
	vc            *VC
	ncell         int
	curContract   *Contract
	entryState    *State
	topMods       []modEntry
	ghostSorts    map[string]string
	ghostTypes    map[string]types.Type
	inlined       map[string]bool
	usedContracts map[string]bool
	closedWorld   map[string][]*ssa.Function
	repoRoot      string
	modPath       string
	anyLoopSeen   bool
	abandoned     int
	knownWritten  map[string]bool
	elemPointable map[string]bool // struct types with escaping element pointers (sv.go)
	fieldPtrIDs    map[string]int   // registered escaping field addresses: type+path -> id
	fieldPointable map[string][]int // pointee type -> ids of field addresses of that type
	fieldPtrs      []fieldPtrEntry
	nonNilGlobal  map[*ssa.Global]bool
	srcCache      map[string][]string
	usedLemmas    map[string]bool
}

func sortStrings(s []string) { sort.Strings(s) }

func loadEngine(repo string, patterns []string) (*Engine, error) {
	cfg := &packages.Config{Mode: packages.LoadAllSyntax, Dir: repo, BuildFlags: []string{"-tags=verif"},
		Env: append(os.Environ(), "GOFLAGS=-mod=mod", "GOPROXY=off", "GOSUMDB=off", "GOTOOLCHAIN=local")}
	pkgs, err := packages.Load(cfg, patterns...)
	if err != nil {
		return nil, err
	}
	var errs []string
	packages.Visit(pkgs, nil, func(p *packages.Package) {
		for _, e := range p.Errors {
			errs = append(errs, e.Error())
		}
	})
	if len(errs) > 0 {
		return nil, fmt.Errorf("package load errors: %s", strings.Join(errs, "; "))
	}
	prog, _ := ssautil.AllPackages(pkgs, ssa.NaiveForm|ssa.InstantiateGenerics)
	prog.Build()
	e := &Engine{prog: prog, pkgs: pkgs, spkgs: map[string]*ssa.Package{}, db: newContractDB(), repoRoot: repo,
		ghostSorts: map[string]string{}, ghostTypes: map[string]types.Type{}, inlined: map[string]bool{}, usedContracts: map[string]bool{},
		closedWorld: map[string][]*ssa.Function{}}
	for _, p := range prog.AllPackages() {
		e.spkgs[p.Pkg.Path()] = p
	}
	e.ghostSorts["now"] = "Int"
	e.ghostTypes["now"] = mathIntT
	e.computeElemPointable()
	return e, nil
}

func checkPreListed(c *Contract, kind string) bool {
	if !strings.Contains(kind, ":pre") {
		return false
	}
	for _, n := range c.CheckPre {
		if strings.Contains(kind, "call:"+n+"#") || strings.Contains(kind, "."+n+"#") {
			return true
		}
	}
	return false
}

// initGhosts gives every declared ghost variable its entry value in a fresh state, so that
// merges, loop heads and whole-state havoc see all of them (a ghost absent from a state
// used to be read as its entry value even after a merge with a state that had changed it).
func (e *Engine) initGhosts(st *State) {
	var names []string
	for n := range e.ghostSorts {
		names = append(names, n)
	}
	sortStrings(names)
	for _, n := range names {
		st.ghost[n] = e.vc.declareNamed("G0_"+n, e.ghostSorts[n])
	}
	// the clock before the first reading of it
	e.vc.assume("true", "(and (<= 0 G0_now) (< G0_now 4611686018427387904))")
}

// setDB installs the contract database and declares its ghost variables.
func (e *Engine) setDB(db *ContractDB) {
	e.db = db
	e.usedLemmas = map[string]bool{}
	for name, tt := range db.Ghosts {
		switch tt {
		case "mathint":
			e.ghostSorts[name] = "Int"
			e.ghostTypes[name] = mathIntT
		case "bool":
			e.ghostSorts[name] = "Bool"
			e.ghostTypes[name] = boolT
		case "bytestream":
			e.ghostSorts[name] = "(Array Int Int)"
			e.ghostTypes[name] = byteStreamT
		case "u32stream":
			e.ghostSorts[name] = "(Array Int Int)"
			e.ghostTypes[name] = u32StreamT
		default:
			e.ghostSorts[name] = "Int"
			e.ghostTypes[name] = mathIntT
		}
	}
}

// findFunc locates the ssa function for a contract key.
var closureNameRe = regexp.MustCompile(`^(.*)__closure([0-9]+)$`)

func (e *Engine) findFunc(c *Contract) *ssa.Function {
	p := e.spkgs[c.PkgPath]
	if p == nil {
		return nil
	}
	// F__closureN: the N-th function literal of F (in source order)
	if m := closureNameRe.FindStringSubmatch(c.Name); m != nil {
		outer := *c
		outer.Name = m[1]
		fn := e.findFunc(&outer)
		n, _ := strconv.Atoi(m[2])
		if fn == nil || n < 1 || n > len(fn.AnonFuncs) {
			return nil
		}
		return fn.AnonFuncs[n-1]
	}
	if c.RecvType == "" {
		if fn := p.Func(c.Name); fn != nil {
			return fn
		}
		// a package-level variable initialised with a function literal: var F = func(...) {...}
		if g, ok := p.Members[c.Name].(*ssa.Global); ok {
			if init := p.Func("init"); init != nil {
				for _, b := range init.Blocks {
					for _, in := range b.Instrs {
						st, ok := in.(*ssa.Store)
						if !ok || st.Addr != ssa.Value(g) {
							continue
						}
						switch v := st.Val.(type) {
						case *ssa.Function:
							return v
						case *ssa.MakeClosure:
							if fn, ok := v.Fn.(*ssa.Function); ok {
								return fn
							}
						}
					}
				}
			}
		}
		return nil
	}
	tn, ok := p.Pkg.Scope().Lookup(c.RecvType).(*types.TypeName)
	if !ok {
		return nil
	}
	var t types.Type = tn.Type()
	for _, tt := range []types.Type{t, types.NewPointer(t)} {
		ms := e.prog.MethodSets.MethodSet(tt)
		for i := 0; i < ms.Len(); i++ {
			sel := ms.At(i)
			if sel.Obj().Name() == c.Name && len(sel.Index()) == 1 {
				fn := e.prog.MethodValue(sel)
				if fn != nil && fn.Synthetic == "" {
					return fn
				}
				if fn != nil && strings.HasPrefix(fn.Synthetic, "wrapper") {
					// pointer-receiver wrapper of a value method: use the declared method
					continue
				}
			}
		}
	}
	// generic or unexported: scan members
	for _, m := range p.Members {
		if tm, ok := m.(*ssa.Type); ok && tm.Name() == c.RecvType {
			for _, tt := range []types.Type{tm.Type(), types.NewPointer(tm.Type())} {
				ms := e.prog.MethodSets.MethodSet(tt)
				for i := 0; i < ms.Len(); i++ {
					if ms.At(i).Obj().Name() == c.Name {
						return e.prog.MethodValue(ms.At(i))
					}
				}
			}
		}
	}
	return nil
}

type FuncResult struct {
	Key     string
	Obligs  []*Obligation
	Err     string // engine error (vcgen failure)
	Mode    Mode
	ExtUsed []string
	Notes   []string
	Inlined []string
	NLoops  int
	Trusted bool
}

func detectMode(fn *ssa.Function, seen map[*ssa.Function]bool) Mode {
	if seen[fn] {
		return ModeInt
	}
	seen[fn] = true
	for _, b := range fn.Blocks {
		for _, in := range b.Instrs {
			if bo, ok := in.(*ssa.BinOp); ok {
				switch bo.Op {
				case token.AND, token.OR, token.XOR, token.AND_NOT:
					if _, _, isInt := intInfo(bo.X.Type()); isInt {
						if c, isC := bo.Y.(*ssa.Const); isC && bo.Op == token.AND {
							if v, ok := constToBig(c.Value); ok && lowMaskBits(v) >= 0 {
								if _, s, _ := intInfo(bo.X.Type()); !s {
									continue
								}
							}
						}
						return ModeBV
					}
				case token.SHL, token.SHR:
					if _, isC := bo.Y.(*ssa.Const); !isC {
						return ModeBV
					}
				}
			}
			if uo, ok := in.(*ssa.UnOp); ok && uo.Op == token.XOR {
				return ModeBV
			}
			if ci, ok := in.(ssa.CallInstruction); ok && len(seen) < 12 {
				if callee := ci.Common().StaticCallee(); callee != nil && len(callee.Blocks) > 0 && callee.Pkg != nil {
					pp := callee.Pkg.Pkg.Path()
					if pp == "math/bits" || pp == "encoding/binary" {
						if detectMode(callee, seen) == ModeBV {
							return ModeBV
						}
					}
				}
			}
		}
	}
	return ModeInt
}

// verifyFunc generates all obligations for the function with contract c. With a
// `cases` clause the function is verified once under each case assumption (the
// cases are proved exhaustive under the precondition); obligations of the same
// name from different cases are parts of one obligation.
func (e *Engine) verifyFunc(c *Contract) (res *FuncResult) {
	if len(c.Cases) == 0 {
		return e.verifyFunc1(c)
	}
	res = &FuncResult{Key: c.Key}
	for k, cs := range c.Cases {
		cc := *c
		cc.Cases = nil
		cc.Requires = append(append([]*Clause(nil), c.Requires...), cs)
		r := e.verifyFunc1(&cc)
		res.Mode = r.Mode
		if r.Err != "" {
			res.Err = fmt.Sprintf("case %d (%s): %s", k+1, cs.Text, r.Err)
			return res
		}
		for _, o := range r.Obligs {
			o.Name = fmt.Sprintf("%s/c%d", o.Name, k+1)
			o.Note = o.Note + " [case " + cs.Text + "]"
		}
		res.Obligs = append(res.Obligs, r.Obligs...)
		res.ExtUsed = append(res.ExtUsed, r.ExtUsed...)
		res.Notes = append(res.Notes, r.Notes...)
	}
	// exhaustiveness: pre ==> case1 || case2 || ...
	ex := *c
	ex.Cases = nil
	ex.Ensures = nil
	ex.Loops = map[int]*LoopSpec{}
	if r := e.verifyCasesExhaustive(&ex, c.Cases); r != nil {
		if r.Err != "" {
			res.Err = "cases: " + r.Err
			return res
		}
		res.Obligs = append(res.Obligs, r.Obligs...)
	}
	return res
}

func (e *Engine) verifyCasesExhaustive(c *Contract, cases []*Clause) (res *FuncResult) {
	res = &FuncResult{Key: c.Key}
	fn := e.findFunc(c)
	if fn == nil {
		res.Err = "function not found"
		return res
	}
	mode := detectMode(fn, map[*ssa.Function]bool{})
	if c.ModeSet {
		mode = c.Mode
	}
	e.ar = &Arith{mode: mode, needUF: map[string][2]interface{}{}}
	vc := newVC(e, c.Key)
	vc.ufs = e.ar.needUF
	e.vc = vc
	e.curContract = c
	e.entryState = nil
	defer func() {
		if r := recover(); r != nil {
			res.Err = fmt.Sprint(r)
		}
	}()
	wm0 := vc.declareNamed("wm0", "Int")
	st := &State{pc: "true", cells: map[*Cell]SV{}, heap: map[string]string{}, wm: wm0, ghost: map[string]string{}}
	e.initGhosts(st)
	var params []SV
	for _, p := range fn.Params {
		sv := e.freshSV(p.Type(), "p_"+p.Name(), "true", st)
		e.assumeWF(p.Type(), sv)
		params = append(params, sv)
	}
	env := e.contractEnv(c, fn, params, st)
	env.old = st
	for _, r := range c.Requires {
		vc.assume("true", e.evalBool(env, r.Expr))
	}
	goal := "false"
	for _, cs := range cases {
		goal = or(goal, e.evalBool(env, cs.Expr))
	}
	vc.oblige("cases:exhaustive", "true", goal, "the case split covers every input allowed by the precondition")
	res.Obligs = vc.obligs
	return res
}

func (e *Engine) verifyFunc1(c *Contract) (res *FuncResult) {
	res = &FuncResult{Key: c.Key}
	fn := e.findFunc(c)
	if fn == nil {
		res.Err = "function not found in the loaded packages (renamed or removed?)"
		return res
	}
	mode := detectMode(fn, map[*ssa.Function]bool{})
	if c.ModeSet {
		mode = c.Mode
	}
	res.Mode = mode
	var known map[string]string
	e.knownWritten = nil
	written := map[string]bool{}
	for pass := 0; pass < 6; pass++ {
		vc, err := e.genFunc(c, fn, mode, known)
		if err != "" {
			res.Err = err
			if vc != nil {
				res.Notes = vc.notes
			}
			return res
		}
		grown := false
		if known == nil {
			known = map[string]string{}
		}
		for k, v := range vc.heapSort {
			if _, ok := known[k]; !ok {
				known[k] = v
				grown = true
			}
		}
		for k := range vc.written {
			if !written[k] {
				written[k] = true
				grown = true
			}
		}
		e.knownWritten = written
		if !grown || !e.anyLoopSeen {
			res.Obligs = vc.obligs
			if c.PostsOnly {
				var keep []*Obligation
				for _, o := range vc.obligs {
					if o.Cover || strings.HasPrefix(o.Kind, "post:") || strings.HasPrefix(o.Kind, "loop") || strings.HasPrefix(o.Kind, "cases") || strings.Contains(o.Kind, "safety:panic") || strings.HasPrefix(o.Kind, "preserves") || strings.HasPrefix(o.Kind, "assert_") || (os.Getenv("GOVC_PRE") != "" && strings.Contains(o.Kind, ":pre")) || checkPreListed(c, o.Kind) {
						keep = append(keep, o)
					}
				}
				res.Obligs = keep
				vc.note("posts_only: safety obligations and callee preconditions of this function are not claimed here")
			}
			for k := range vc.usedExt {
				res.ExtUsed = append(res.ExtUsed, k)
			}
			sort.Strings(res.ExtUsed)
			res.Notes = vc.notes
			return res
		}
	}
	res.Err = "heap map discovery did not reach a fixed point"
	return res
}

func hasLoops(fn *ssa.Function) bool {
	for _, b := range fn.Blocks {
		if isLoopHeader(b) {
			return true
		}
	}
	return false
}

func (e *Engine) genFunc(c *Contract, fn *ssa.Function, mode Mode, known map[string]string) (vc *VC, errs string) {
	e.ar = &Arith{mode: mode, needUF: map[string][2]interface{}{}, wrapSigned: c.WrapsSigned}
	vc = newVC(e, c.Key)
	vc.ufs = e.ar.needUF
	e.vc = vc
	e.ar.resolve = func(n string) string {
		if d, ok := vc.defTerm[n]; ok {
			return d
		}
		return n
	}
	e.curContract = c
	e.entryState = nil
	e.topMods = nil
	e.anyLoopSeen = false
	e.abandoned = 0
	defer func() {
		if r := recover(); r != nil {
			switch v := r.(type) {
			case engErr:
				errs = string(v)
			case specErr:
				errs = "contract: " + string(v)
			default:
				errs = fmt.Sprintf("internal engine failure: %v\n%s", r, shortStack())
			}
		}
	}()
	wm0 := vc.declareNamed("wm0", "Int")
	vc.assume("true", "(>= wm0 1)")
	st := &State{pc: "true", cells: map[*Cell]SV{}, heap: map[string]string{}, wm: wm0, ghost: map[string]string{}}
	e.initGhosts(st)
	if known != nil {
		names := make([]string, 0, len(known))
		for k := range known {
			names = append(names, k)
		}
		sort.Strings(names)
		for _, k := range names {
			e.heapGet(st, k, known[k])
		}
	}
	fr := &Frame{fn: fn, regs: map[ssa.Value]SV{}, cellOf: map[*ssa.Alloc]*Cell{}, top: true}
	// symbolic parameters
	sig := fn.Signature
	for i, p := range fn.Params {
		name := p.Name()
		sv := e.freshSV(p.Type(), "p_"+name, "true", st)
		e.assumeWF(p.Type(), sv)
		fr.params = append(fr.params, sv)
		_ = i
	}
	_ = sig
	vc.replay = &replayInfo{fn: fn, mode: mode}
	e.registerInputs(fn, fr.params, st)
	for _, fv := range fn.FreeVars {
		v := e.freshSV(fv.Type(), "fv_"+fv.Name(), "true", st)
		if p, ok := v.(*PtrSV); ok && p.Kind == pkHeap {
			vc.assume("true", fmt.Sprintf("(not (= %s 0))", p.Ref)) // a captured variable exists
		}
		fr.params = append(fr.params, v)
	}
	fr.entry = st.clone()
	e.entryState = fr.entry
	env := e.contractEnv(c, fn, fr.params, st)
	env.old = fr.entry
	// a function literal under contract: the variables it captures are visible in its
	// clauses by name, with the value they hold when the literal is entered
	for i, fv := range fn.FreeVars {
		pt, isPtr := fv.Type().(*types.Pointer)
		if _, taken := env.vars[fv.Name()]; taken || !isPtr {
			continue
		}
		env.vars[fv.Name()] = TV{V: e.load(nil, st, fr.params[len(fn.Params)+i], pt.Elem(), "spec"), T: pt.Elem()}
	}
	// preconditions
	pre := "true"
	for _, r := range c.Requires {
		t := e.evalBool(env, r.Expr)
		vc.assume("true", t)
		pre = and(pre, t)
	}
	vc.cover("pre:cover", "true")
	// ghost assignments at entry
	for _, sc := range c.Sets {
		be, ok := sc.Expr.(*ast.BinaryExpr)
		if !ok {
			sfail("sets: need ghost(g) = expr")
		}
		call, ok := be.X.(*ast.CallExpr)
		if !ok || len(call.Args) != 1 {
			sfail("sets: need ghost(g) = expr")
		}
		g := call.Args[0].(*ast.Ident).Name
		tv := e.eval(env, be.Y)
		if tv.Konst != nil {
			st.ghost[g] = tv.Konst.String()
		} else if sc, ok := tv.V.(*Sc); ok {
			st.ghost[g] = sc.T
		} else {
			st.ghost[g] = e.flatten(tv.T, tv.V)[0]
		}
	}
	// modifies
	for _, m := range c.Modifies {
		me := e.evalModifies(env, m)
		e.ensureMapsFor(env, m, st)
		e.topMods = append(e.topMods, me)
	}
	for _, h := range c.Hints {
		e.applyHint(env, h, "true")
	}
	if hasRecover(fn) {
		fr.recovers = true
	}
	out, rv := e.runFunc(fr, st)
	if len(c.SiteAsserts) > 0 {
		for k, sa := range c.SiteAsserts {
			hit := false
			for key := range fr.siteDone {
				if strings.HasPrefix(key, fmt.Sprintf("%d|", k)) {
					hit = true
				}
			}
			if !hit {
				vc.oblige(fmt.Sprintf("assert_at:%d:site", k+1), "true", "false", fmt.Sprintf("no statement of the function contains the text %q any more", sa.Text))
			}
		}
	}
	if len(c.Preserves) > 0 {
		hit := false
		for name := range vc.heapSort {
			if matchPreserve(name, c.Preserves) {
				hit = true
			}
		}
		vc.oblige("preserves:checked", "true", "true", fmt.Sprintf("no instruction or callee contract writes %v (maps known: %v)", c.Preserves, hit))
	}
	for k, ca := range c.CallAsserts {
		if fr.callHits[k] == 0 {
			vc.oblige(fmt.Sprintf("assert_call:%d:site", k+1), "true", "false", fmt.Sprintf("the function no longer calls %s on any explored path", ca.Text))
		}
	}
	if out == nil {
		if !c.MayPanic {
			vc.note("no path returns")
		}
		return vc, ""
	}
	penv := e.bindResults(env, c, fn.Signature, rv)
	penv.cur = out
	penv.old = fr.entry
	if rv != nil {
		rs := fn.Signature.Results()
		for i := 0; i < rs.Len(); i++ {
			var v SV = rv
			if rs.Len() > 1 {
				v = rv.(*TupleSV).E[i]
			}
			rt := rs.At(i).Type()
			for li, t := range e.flatten(rt, v) {
				l := e.leaves(rt)[li]
				n := vc.fresh("result")
				vc.decls = append(vc.decls, fmt.Sprintf("(define-fun %s () %s %s)", n, l.Sort, t))
				vc.addModelTerm(n, fmt.Sprintf("result:%d:%s", i, l.Suffix))
			}
		}
	}
	// Postconditions are checked at each return point separately (simpler
	// queries, precise models); the parts of one clause form one obligation.
	for i, q := range c.Ensures {
		for k, rst := range fr.retStates {
			renv := e.bindResults(env, c, fn.Signature, fr.retVals[k])
			renv.cur = rst
			renv.old = fr.entry
			renv.witness = e.evalWitnesses(c, fr, rst, env)
			t := e.evalBool(renv, q.Expr)
			name := fmt.Sprintf("post:%d", i+1)
			if len(fr.retStates) > 1 {
				name = fmt.Sprintf("post:%d/r%d", i+1, k+1)
			}
			vc.oblige(name, rst.pc, t, "postcondition: "+q.Text).Props = q.Props
		}
	}
	_ = penv
	vc.cover("post:cover", out.pc)
	return vc, ""
}

// assumeWF: well-formedness of parameter values (slice header sanity)
func (e *Engine) assumeWF(t types.Type, v SV) {
	if isTimeType(t) || t == mathIntT {
		return
	}
	switch u := t.Underlying().(type) {
	case *types.Slice:
		s := v.(*SliceSV)
		e.vc.assume("true", e.idxLe(s.Len, s.Cap))
		big62 := e.ar.Const(pow2(62), 64, true)
		e.vc.assume("true", e.idxLe(e.idxAdd(s.Off, s.Cap), big62))
		e.vc.assume("true", e.idxLe(s.Off, big62))
		e.vc.assume("true", e.idxLe(s.Cap, big62))
		e.vc.assume("true", implies(fmt.Sprintf("(= %s 0)", s.Base), fmt.Sprintf("(= %s %s)", s.Cap, e.idxc(0))))
	case *types.Struct:
		sv := v.(*StructSV)
		for i := 0; i < u.NumFields(); i++ {
			e.assumeWF(u.Field(i).Type(), sv.F[i])
		}
	case *types.Tuple:
		tv := v.(*TupleSV)
		for i := 0; i < u.Len(); i++ {
			e.assumeWF(u.At(i).Type(), tv.E[i])
		}
	case *types.Interface:
		iv := v.(*IfaceSV)
		e.vc.assume("true", implies(fmt.Sprintf("(= %s 0)", iv.Tag), fmt.Sprintf("(= %s 0)", iv.Val)))
	}
}

func (e *Engine) assumeGlobalInv(g *GlobalInv, st *State) {
	p := e.spkgs[g.Pkg]
	if p == nil {
		return
	}
	gv := p.Var(g.Name)
	if gv == nil {
		return
	}
	t := gv.Type().(*types.Pointer).Elem()
	defer func() { recover() }()
	val := e.load(nil, st, &PtrSV{Kind: pkGlobal, Glob: gv, Root: t}, t, "global")
	env := &Env{vars: map[string]TV{"v": {V: val, T: t}}, cur: st, e: e, pkg: p.Pkg}
	e.vc.assume("true", e.evalBool(env, g.Cl.Expr))
	e.vc.usedExt["global-invariant "+g.Pkg+"."+g.Name+": "+g.Cl.Text] = true
}

// ---- lemmas ---------------------------------------------------------------------

func (e *Engine) lemmaEnv(l *Lemma, bind func(name string, t types.Type) SV) *Env {
	env := &Env{vars: map[string]TV{}, e: e, cur: &State{pc: "true", cells: map[*Cell]SV{}, heap: map[string]string{}, wm: "0", ghost: map[string]string{}}}
	if p := e.spkgs[l.PkgPath]; p != nil {
		env.pkg = p.Pkg
	}
	for i, n := range l.PNames {
		t := e.resolveType(env, l.PTypes[i])
		if t == nil {
			sfail("lemma %s: unknown type %s", l.Name, exprString(l.PTypes[i]))
		}
		env.vars[n] = TV{V: bind(n, t), T: t}
	}
	return env
}

// lemmaInstance: (requires ==> ensures) instantiated at the call's arguments.
// Only lemmas that are themselves obligations of the run may be used.
func (e *Engine) lemmaInstance(env *Env, call *ast.CallExpr) string {
	id, ok := call.Fun.(*ast.Ident)
	if !ok {
		sfail("use needs lemma(args)")
	}
	l, ok := e.db.Lemmas[id.Name]
	if !ok {
		sfail("unknown lemma %s", id.Name)
	}
	if len(call.Args) != len(l.PNames) {
		sfail("lemma %s: want %d args", l.Name, len(l.PNames))
	}
	lenv := &Env{vars: map[string]TV{}, e: e, cur: env.cur, pkg: env.pkg}
	for i, a := range call.Args {
		t := e.resolveType(env, l.PTypes[i])
		tv := e.materialize(e.eval(env, a), t)
		if !types.Identical(tv.T.Underlying(), t.Underlying()) {
			tv = e.convertTV(tv, t)
		}
		lenv.vars[l.PNames[i]] = tv
	}
	pre := "true"
	for _, r := range l.Requires {
		pre = and(pre, e.evalBool(lenv, r.Expr))
	}
	post := "true"
	for _, q := range l.Ensures {
		post = and(post, e.evalBool(lenv, q.Expr))
	}
	e.usedLemmas[l.Name] = true
	return implies(pre, post)
}

func (e *Engine) verifyLemma(l *Lemma) (res *FuncResult) {
	res = &FuncResult{Key: "lemma:" + l.Name, Mode: l.Mode}
	e.ar = &Arith{mode: l.Mode, needUF: map[string][2]interface{}{}}
	vc := newVC(e, "lemma:"+l.Name)
	vc.ufs = e.ar.needUF
	e.vc = vc
	e.curContract = nil
	e.entryState = nil
	defer func() {
		if r := recover(); r != nil {
			switch v := r.(type) {
			case engErr:
				res.Err = string(v)
			case specErr:
				res.Err = "lemma: " + string(v)
			default:
				res.Err = fmt.Sprintf("internal engine failure: %v\n%s", r, shortStack())
			}
		}
	}()
	env := e.lemmaEnv(l, func(name string, t types.Type) SV {
		sv := e.freshSV(t, "l_"+name, "true", nil)
		for _, tm := range e.flatten(t, sv) {
			vc.addModelTerm(tm, "lemma:"+name)
		}
		return sv
	})
	for _, r := range l.Requires {
		vc.assume("true", e.evalBool(env, r.Expr))
	}
	vc.cover("pre:cover", "true")
	for _, h := range l.Hints {
		switch {
		case strings.HasPrefix(h.Text, "unfold "):
			vc.assume("true", e.unfoldSpec(env, h.Expr.(*ast.CallExpr)))
		case strings.HasPrefix(h.Text, "use "):
			vc.assume("true", e.lemmaInstance(env, h.Expr.(*ast.CallExpr)))
		case strings.HasPrefix(h.Text, "induct "):
			// induct(measure, args...): the induction hypothesis at args, guarded by
			// a strict decrease of the non-negative measure
			ce, ok := h.Expr.(*ast.CallExpr)
			if !ok || len(ce.Args) != len(l.PNames)+1 {
				sfail("induct(measureAtArgs, args...) expected with %d args", len(l.PNames))
			}
			vc.assume("true", e.inductionHyp(env, l, ce))
		default:
			t := e.evalBool(env, h.Expr)
			vc.oblige("hint:"+sanitizeSym(h.Text), "true", t, "lemma hint assertion")
			vc.assume("true", t)
		}
	}
	for i, q := range l.Ensures {
		vc.oblige(fmt.Sprintf("ensures:%d", i+1), "true", e.evalBool(env, q.Expr), "lemma conclusion: "+q.Text)
	}
	res.Obligs = vc.obligs
	res.Notes = vc.notes
	return res
}

// inductionHyp: induct(m, a1..an) where m is the measure expression over the
// lemma's own parameters. Adds: measure[a] < measure[params] && measure[a] >= 0
// ==> (requires[a] ==> ensures[a]).
func (e *Engine) inductionHyp(env *Env, l *Lemma, ce *ast.CallExpr) string {
	measure := ce.Args[0]
	args := ce.Args[1:]
	lenv := &Env{vars: map[string]TV{}, e: e, cur: env.cur, pkg: env.pkg}
	for i, a := range args {
		t := e.resolveType(env, l.PTypes[i])
		tv := e.materialize(e.eval(env, a), t)
		if !types.Identical(tv.T.Underlying(), t.Underlying()) {
			tv = e.convertTV(tv, t)
		}
		lenv.vars[l.PNames[i]] = tv
	}
	m0 := e.materialize(e.eval(env, measure), intT)
	m1 := e.materialize(e.eval(lenv, measure), intT)
	w, s, _ := intInfo(m0.T)
	dec := and(e.ar.Cmp(tokGEQ, m1.V.(*Sc).T, e.ar.ConstI(0, w, s), s), e.ar.Cmp(tokLSS, m1.V.(*Sc).T, m0.V.(*Sc).T, s))
	pre := "true"
	for _, r := range l.Requires {
		pre = and(pre, e.evalBool(lenv, r.Expr))
	}
	post := "true"
	for _, q := range l.Ensures {
		post = and(post, e.evalBool(lenv, q.Expr))
	}
	return implies(dec, implies(pre, post))
}

func shortStack() string {
	buf := make([]byte, 1<<14)
	n := runtime.Stack(buf, false)
	lines := strings.Split(string(buf[:n]), "\n")
	var out []string
	for _, l := range lines {
		if strings.Contains(l, "/verif/govc/") {
			out = append(out, strings.TrimSpace(l))
		}
		if len(out) >= 8 {
			break
		}
	}
	return strings.Join(out, " <- ")
}

// evalWitnesses evaluates the contract's witness expressions (over locals) in a
// return state; witnesses that are not available there are skipped.
func (e *Engine) evalWitnesses(c *Contract, fr *Frame, st *State, base *Env) []string {
	var out []string
	for _, w := range c.Witnesses {
		func() {
			defer func() {
				if r := recover(); r != nil {
					e.vc.note(fmt.Sprintf("witness %q not available at a return point: %v", w.Text, r))
				}
			}()
			wenv := *base
			wenv.cur = st
			wenv.fr = fr
			tv := e.eval(&wenv, w.Expr)
			out = append(out, e.toIdxTV(tv))
		}()
	}
	return out
}

// assumeGlobalInvOn assumes the declared invariant of a package-level variable
// on a value just loaded from it (assumption, listed in the evidence). Only
// sound for variables that are written during package initialisation only.
func (e *Engine) assumeGlobalInvOn(gv *ssa.Global, val SV, t types.Type, st *State) {
	if gv.Pkg == nil || e.vc.noDef > 0 {
		return
	}
	if iv, ok := val.(*IfaceSV); ok && e.initOnceNonNilError(gv) {
		// decided on the SSA of the package: assigned exactly once, in package
		// initialisation, from errors.New / fmt.Errorf
		e.vc.assume("true", fmt.Sprintf("(not (= %s 0))", iv.Tag))
	}
	for _, g := range e.db.Globals {
		if g.Pkg != gv.Pkg.Pkg.Path() || g.Name != gv.Name() {
			continue
		}
		func() {
			defer func() { recover() }()
			env := &Env{vars: map[string]TV{"v": {V: val, T: t}}, cur: st, e: e, pkg: gv.Pkg.Pkg}
			e.vc.assume("true", e.evalBool(env, g.Cl.Expr))
			e.vc.usedExt["global-invariant "+g.Pkg+"."+g.Name+": "+g.Cl.Text] = true
		}()
	}
}

// initOnceNonNilError: the package-level variable is of an interface type, is
// stored to exactly once in its whole package, and that store is in the package
// initialiser with a value returned by errors.New or fmt.Errorf.
func (e *Engine) initOnceNonNilError(gv *ssa.Global) bool {
	if v, ok := e.nonNilGlobal[gv]; ok {
		return v
	}
	if e.nonNilGlobal == nil {
		e.nonNilGlobal = map[*ssa.Global]bool{}
	}
	res := false
	defer func() { e.nonNilGlobal[gv] = res }()
	if _, isIface := gv.Type().(*types.Pointer).Elem().Underlying().(*types.Interface); !isIface {
		return false
	}
	stores := 0
	good := false
	var scan func(fn *ssa.Function)
	scan = func(fn *ssa.Function) {
		for _, b := range fn.Blocks {
			for _, in := range b.Instrs {
				st, ok := in.(*ssa.Store)
				if !ok || st.Addr != ssa.Value(gv) {
					continue
				}
				stores++
				if fn.Name() == "init" && fn.Parent() == nil {
					if call, ok := st.Val.(*ssa.Call); ok {
						if callee := call.Common().StaticCallee(); callee != nil {
							k := funcKey(callee)
							// metrics.RegisterMetric ends in a type assertion to the Metric
							// interface, which panics on nil: a returned value is non-nil
							if k == "errors.New" || k == "fmt.Errorf" || k == "github.com/enfein/mieru/v3/pkg/metrics.RegisterMetric" {
								good = true
							}
						}
					}
				}
			}
		}
		for _, a := range fn.AnonFuncs {
			scan(a)
		}
	}
	for _, fn := range e.pkgFunctions(gv.Pkg.Pkg.Path()) {
		scan(fn)
	}
	res = stores == 1 && good
	return res
}

// atomic.Bool stores its value as uint32; atomic.IntN as intN.
func (e *Engine) atomicConv(v SV, ft, resT types.Type) SV {
	if b, ok := resT.Underlying().(*types.Basic); ok && b.Info()&types.IsBoolean != 0 {
		w, s, _ := intInfo(ft)
		return &Sc{not(fmt.Sprintf("(= %s %s)", v.(*Sc).T, e.ar.ConstI(0, w, s)))}
	}
	return v
}

func (e *Engine) atomicConvBack(v SV, ft types.Type, isBool bool) SV {
	if isBool {
		w, s, _ := intInfo(ft)
		return &Sc{ite(v.(*Sc).T, e.ar.ConstI(1, w, s), e.ar.ConstI(0, w, s))}
	}
	return v
}

// isVolatile: the field is declared `volatile` in the contract of the function
// under verification (other goroutines may write it at any time).
func (e *Engine) isVolatile(p *PtrSV) bool {
	c := e.curContract
	if c == nil || len(c.Volatile) == 0 {
		return false
	}
	_, suffix := e.typeAtPath(p.Root, p.Path)
	name := e.typeKey(p.Root) + suffix
	for _, v := range c.Volatile {
		if strings.HasSuffix(name, v) || strings.Contains(name, v+".") {
			return true
		}
	}
	return false
}
