package main

// Structural obligations: facts about *where* something may happen, decided on
// the SSA of a package (no solver). Syntax (after `//@ struct`):
//
//   writers T.f = {F1, F2}          functions that store to field f of T (or call a
//                                   mutating sync/atomic method on it)
//   callers G = {F1, F2}            functions that call G (G: func, T.method, or pkg.func)
//   const NAME == VALUE             value of a package constant
//   nocall F : G                    F (and its closures) never calls G
//   mustcall F : G1 | G2            F (or one of its closures) calls at least one of the Gs
//   stateless F                     F (with its closures) accesses no struct field and no package variable
//
// Function names are relative to the package: F, T.m; closures count for their
// enclosing function.

import (
	"encoding/json"
	"fmt"
	"go/constant"
	"go/types"
	"sort"
	"strings"

	"golang.org/x/tools/go/ssa"
)

func jsonUnmarshal(b []byte, v interface{}) error { return json.Unmarshal(b, v) }

type structResult struct {
	name   string
	ok     bool
	detail string
}

func relName(fn *ssa.Function) string {
	for fn.Parent() != nil {
		fn = fn.Parent()
	}
	if o := fn.Origin(); o != nil {
		fn = o
	}
	if recv := fn.Signature.Recv(); recv != nil {
		t := recv.Type()
		if p, ok := t.(*types.Pointer); ok {
			t = p.Elem()
		}
		if n, ok := types.Unalias(t).(*types.Named); ok {
			return n.Obj().Name() + "." + fn.Name()
		}
	}
	return fn.Name()
}

func (e *Engine) pkgFunctions(pkgPath string) []*ssa.Function {
	p := e.spkgs[pkgPath]
	if p == nil {
		return nil
	}
	seen := map[*ssa.Function]bool{}
	var out []*ssa.Function
	var add func(fn *ssa.Function)
	add = func(fn *ssa.Function) {
		if fn == nil || seen[fn] {
			return
		}
		seen[fn] = true
		out = append(out, fn)
		for _, a := range fn.AnonFuncs {
			add(a)
		}
	}
	for _, m := range p.Members {
		switch v := m.(type) {
		case *ssa.Function:
			add(v)
		case *ssa.Type:
			for _, t := range []types.Type{v.Type(), types.NewPointer(v.Type())} {
				ms := e.prog.MethodSets.MethodSet(t)
				for i := 0; i < ms.Len(); i++ {
					fn := e.prog.MethodValue(ms.At(i))
					if fn != nil && fn.Synthetic == "" && fn.Pkg == p {
						add(fn)
					}
				}
			}
		}
	}
	return out
}

var mutatingAtomic = map[string]bool{"Add": true, "Store": true, "Swap": true, "CompareAndSwap": true, "And": true, "Or": true}

func parseSet(s string) []string {
	s = strings.TrimSpace(s)
	s = strings.TrimPrefix(s, "{")
	s = strings.TrimSuffix(s, "}")
	var out []string
	for _, p := range strings.Split(s, ",") {
		p = strings.TrimSpace(p)
		if p != "" {
			out = append(out, p)
		}
	}
	sort.Strings(out)
	return out
}

func setString(m map[string]bool) []string {
	var out []string
	for k := range m {
		out = append(out, k)
	}
	sort.Strings(out)
	return out
}

func (e *Engine) runStructChecks(cs []*StructCheck) []structResult {
	var out []structResult
	for _, c := range cs {
		out = append(out, e.runStructCheck(c))
	}
	return out
}

func fieldRootName(v ssa.Value) (typeName, field string, ok bool) {
	fa, isFA := v.(*ssa.FieldAddr)
	if !isFA {
		return "", "", false
	}
	pt, isP := fa.X.Type().Underlying().(*types.Pointer)
	if !isP {
		return "", "", false
	}
	st, isS := pt.Elem().Underlying().(*types.Struct)
	if !isS {
		return "", "", false
	}
	tn := ""
	if n, isN := types.Unalias(pt.Elem()).(*types.Named); isN {
		tn = n.Obj().Name()
	}
	return tn, st.Field(fa.Field).Name(), true
}

func (e *Engine) runStructCheck(c *StructCheck) structResult {
	name := "struct:" + sanitizeSym(strings.Join(strings.Fields(c.Text), "_"))
	if len(name) > 120 {
		name = name[:120]
	}
	name = c.Pkg + "#" + name
	kw, rest := splitKeyword(c.Text)
	fns := e.pkgFunctions(c.Pkg)
	if fns == nil {
		return structResult{name, false, "package " + c.Pkg + " not loaded"}
	}
	switch kw {
	case "writers":
		parts := strings.SplitN(rest, "=", 2)
		if len(parts) != 2 {
			return structResult{name, false, "bad syntax"}
		}
		tf := strings.SplitN(strings.TrimSpace(parts[0]), ".", 2)
		want := parseSet(parts[1])
		got := map[string]bool{}
		for _, fn := range fns {
			for _, b := range fn.Blocks {
				for _, in := range b.Instrs {
					switch v := in.(type) {
					case *ssa.Store:
						// direct store, or store through a path rooted at the field
						addr := v.Addr
						for {
							if tn, f, ok := fieldRootName(addr); ok && tn == tf[0] && f == tf[1] {
								got[relName(fn)] = true
								break
							}
							switch a := addr.(type) {
							case *ssa.FieldAddr:
								addr = a.X
								continue
							case *ssa.IndexAddr:
								addr = a.X
								continue
							}
							break
						}
					case ssa.CallInstruction:
						cc := v.Common()
						if cc.IsInvoke() || len(cc.Args) == 0 {
							continue
						}
						callee := cc.StaticCallee()
						if callee == nil || !mutatingAtomic[callee.Name()] {
							continue
						}
						if callee.Pkg == nil || callee.Pkg.Pkg.Path() != "sync/atomic" {
							continue
						}
						if tn, f, ok := fieldRootName(cc.Args[0]); ok && tn == tf[0] && f == tf[1] {
							got[relName(fn)] = true
						}
					}
				}
			}
		}
		g := setString(got)
		if strings.Join(g, ",") == strings.Join(want, ",") {
			return structResult{name, true, fmt.Sprintf("writers of %s are exactly %v", parts[0], g)}
		}
		return structResult{name, false, fmt.Sprintf("writers of %s are %v, contract says %v", strings.TrimSpace(parts[0]), g, want)}
	case "writers_global":
		parts := strings.SplitN(rest, "=", 2)
		if len(parts) != 2 {
			return structResult{name, false, "bad syntax"}
		}
		gname := strings.TrimSpace(parts[0])
		want := parseSet(parts[1])
		got := map[string]bool{}
		for _, fn := range fns {
			for _, b := range fn.Blocks {
				for _, in := range b.Instrs {
					if st, ok := in.(*ssa.Store); ok {
						if g, ok := st.Addr.(*ssa.Global); ok && g.Name() == gname && g.Pkg != nil && g.Pkg.Pkg.Path() == c.Pkg {
							got[relName(fn)] = true
						}
					}
				}
			}
		}
		g := setString(got)
		if strings.Join(g, ",") == strings.Join(want, ",") {
			return structResult{name, true, fmt.Sprintf("package variable %s is assigned only in %v", gname, g)}
		}
		return structResult{name, false, fmt.Sprintf("package variable %s is assigned in %v, contract says %v", gname, g, want)}
	case "callers":
		parts := strings.SplitN(rest, "=", 2)
		if len(parts) != 2 {
			return structResult{name, false, "bad syntax"}
		}
		target := strings.TrimSpace(parts[0])
		want := parseSet(parts[1])
		got := map[string]bool{}
		for _, fn := range fns {
			for _, b := range fn.Blocks {
				for _, in := range b.Instrs {
					ci, ok := in.(ssa.CallInstruction)
					if !ok {
						continue
					}
					if calleeMatches(ci.Common(), target, c.Pkg) {
						got[relName(fn)] = true
					}
				}
			}
		}
		g := setString(got)
		if strings.Join(g, ",") == strings.Join(want, ",") {
			return structResult{name, true, fmt.Sprintf("callers of %s are exactly %v", target, g)}
		}
		return structResult{name, false, fmt.Sprintf("callers of %s are %v, contract says %v", target, g, want)}
	case "nocall":
		parts := strings.SplitN(rest, ":", 2)
		if len(parts) != 2 {
			return structResult{name, false, "bad syntax"}
		}
		who := strings.TrimSpace(parts[0])
		target := strings.TrimSpace(parts[1])
		found := false
		exists := false
		for _, fn := range fns {
			if relName(fn) != who {
				continue
			}
			exists = true
			for _, b := range fn.Blocks {
				for _, in := range b.Instrs {
					if ci, ok := in.(ssa.CallInstruction); ok && calleeMatches(ci.Common(), target, c.Pkg) {
						found = true
					}
				}
			}
		}
		if !exists {
			return structResult{name, false, "function " + who + " not found"}
		}
		if found {
			return structResult{name, false, who + " calls " + target}
		}
		return structResult{name, true, who + " never calls " + target}
	case "mustcall":
		// mustcall F : G1 | G2   - F (or one of its closures) calls at least one of the Gs
		parts := strings.SplitN(rest, ":", 2)
		if len(parts) != 2 {
			return structResult{name, false, "bad syntax"}
		}
		who := strings.TrimSpace(parts[0])
		var targets []string
		for _, t := range strings.Split(parts[1], "|") {
			if t = strings.TrimSpace(t); t != "" {
				targets = append(targets, t)
			}
		}
		exists := false
		for _, fn := range fns {
			if relName(fn) != who {
				continue
			}
			exists = true
			for _, b := range fn.Blocks {
				for _, in := range b.Instrs {
					ci, ok := in.(ssa.CallInstruction)
					if !ok {
						continue
					}
					for _, t := range targets {
						if calleeMatches(ci.Common(), t, c.Pkg) {
							return structResult{name, true, who + " calls " + t}
						}
					}
				}
			}
		}
		if !exists {
			return structResult{name, false, "function " + who + " not found"}
		}
		return structResult{name, false, who + " (with its closures) calls none of " + strings.Join(targets, ", ")}
	case "stateless":
		// stateless F   - F (with its closures) reads and writes no struct field and no package-level
		// variable: its result can depend on its arguments only, and concurrent calls share nothing
		who := strings.TrimSpace(rest)
		exists := false
		for _, fn := range fns {
			if relName(fn) != who {
				continue
			}
			exists = true
			for _, b := range fn.Blocks {
				for _, in := range b.Instrs {
					switch v := in.(type) {
					case *ssa.FieldAddr:
						return structResult{name, false, fmt.Sprintf("%s accesses field %d of %s", who, v.Field, v.X.Type())}
					case *ssa.Field:
						return structResult{name, false, fmt.Sprintf("%s reads field %d of %s", who, v.Field, v.X.Type())}
					}
					for _, op := range in.Operands(nil) {
						if g, ok := (*op).(*ssa.Global); ok {
							return structResult{name, false, who + " uses package-level variable " + g.Name()}
						}
					}
				}
			}
		}
		if !exists {
			return structResult{name, false, "function " + who + " not found"}
		}
		return structResult{name, true, who + " accesses no struct field and no package-level variable"}
	case "const":
		parts := strings.SplitN(rest, "==", 2)
		if len(parts) != 2 {
			return structResult{name, false, "bad syntax"}
		}
		cn := strings.TrimSpace(parts[0])
		want := strings.TrimSpace(parts[1])
		p := e.spkgs[c.Pkg]
		obj := p.Pkg.Scope().Lookup(cn)
		k, ok := obj.(*types.Const)
		if !ok {
			return structResult{name, false, "constant " + cn + " not found"}
		}
		got := k.Val().ExactString()
		if k.Val().Kind() == constant.String {
			got = constant.StringVal(k.Val())
		}
		if got == want {
			return structResult{name, true, cn + " == " + want}
		}
		return structResult{name, false, fmt.Sprintf("%s is %s, contract says %s", cn, got, want)}
	}
	return structResult{name, false, "unknown structural check " + kw}
}

// calleeMatches: target forms: "f" (function in pkg), "T.m" (method, static or
// through an interface named T), "path/pkg.f".
func calleeMatches(cc *ssa.CallCommon, target, pkg string) bool {
	if cc.IsInvoke() {
		m := cc.Method
		tn := ""
		if n, ok := types.Unalias(cc.Value.Type()).(*types.Named); ok {
			tn = n.Obj().Name()
			if n.Obj().Pkg() != nil && n.Obj().Pkg().Path() != pkg {
				tn = n.Obj().Pkg().Name() + "." + tn
			}
		}
		return tn+"."+m.Name() == target
	}
	callee := cc.StaticCallee()
	if callee == nil {
		return false
	}
	if o := callee.Origin(); o != nil {
		callee = o
	}
	rn := relName(callee)
	if callee.Parent() != nil {
		return false
	}
	cp := ""
	if callee.Pkg != nil {
		cp = callee.Pkg.Pkg.Path()
	} else if callee.Object() != nil && callee.Object().Pkg() != nil {
		cp = callee.Object().Pkg().Path()
	}
	if cp == pkg {
		return rn == target
	}
	short := cp
	if i := strings.LastIndex(cp, "/"); i >= 0 {
		short = cp[i+1:]
	}
	return short+"."+rn == target || cp+"."+rn == target
}

func (e *Engine) allFunctionsNamed(name string) []*ssa.Function {
	var out []*ssa.Function
	for path := range e.spkgs {
		for _, fn := range e.pkgFunctions(path) {
			if relName(fn) == name && fn.Parent() == nil {
				out = append(out, fn)
			}
		}
	}
	return out
}
