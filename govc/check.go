package main

import (
	"bufio"
	"fmt"
	"os"
	"path/filepath"
	"regexp"
	"sort"
	"strconv"
	"strings"
	"time"

	"go/types"

	"golang.org/x/tools/go/ssa"
	"golang.org/x/tools/go/ssa/ssautil"
)

var partSuffixRe = regexp.MustCompile(`/[rcea][0-9]+`)

type knownFinding struct {
	Prop, Oblig, What string
}

func loadKnownFindings(path string) []knownFinding {
	f, err := os.Open(path)
	if err != nil {
		return nil
	}
	defer f.Close()
	var out []knownFinding
	re := regexp.MustCompile(`^finding:\s+property=(\S+)\s+obligation=(\S+)\s+what=(.*)$`)
	sc := bufio.NewScanner(f)
	for sc.Scan() {
		m := re.FindStringSubmatch(strings.TrimSpace(sc.Text()))
		if m != nil {
			out = append(out, knownFinding{m[1], m[2], m[3]})
		}
	}
	return out
}

type propConfig struct {
	ExtraPkgs []string       `json:"extra_packages"`
	MinOblig  int            `json:"min_obligations"`
	MinPerFn  map[string]int `json:"min_per_function"`
}

func hasProp(props []string, id string) bool {
	for _, p := range props {
		if p == id {
			return true
		}
	}
	return false
}

type evidence struct {
	PropertyID  string                 `json:"property_id"`
	Tier        string                 `json:"tier"`
	Seed        int                    `json:"seed"`
	Level       string                 `json:"level"`
	Coverage    map[string]interface{} `json:"coverage"`
	Assumptions []string               `json:"assumptions"`
	WallS       float64                `json:"wall_s"`
	Violations  int                    `json:"violations"`
}

// instances of a generic function among all functions of the program
func (e *Engine) instancesOf(gen *ssa.Function) []*ssa.Function {
	var out []*ssa.Function
	for fn := range ssautil.AllFunctions(e.prog) {
		if fn.Origin() == gen && fn != gen && len(fn.Blocks) > 0 && !hasTypeParamArgs(fn) {
			out = append(out, fn)
		}
	}
	sort.Slice(out, func(i, j int) bool { return out[i].Name() < out[j].Name() })
	return out
}

func cmdCheck(id, tier string) int {
	t0 := time.Now()
	seed := 0
	if s := os.Getenv("VERIF_SEED"); s != "" {
		seed, _ = strconv.Atoi(s)
	}
	evPath := filepath.Join(*flagVerif, "evidence", id+".json")
	if *flagEvDir != "" {
		evPath = filepath.Join(*flagEvDir, "evidence", id+".json")
	}
	os.Remove(evPath)
	db, err := loadDB()
	if err != nil {
		fmt.Println("error loading contracts:", err)
		return violationNoInput(id, "contracts#load", "contract files do not parse: "+err.Error(), evPath, tier, seed, t0)
	}
	cfg := propConfig{MinPerFn: map[string]int{}}
	readJSON(filepath.Join(*flagVerif, "spec", "props", id+".json"), &cfg)

	var funcs []*Contract
	pkgs := map[string]bool{}
	for _, c := range db.Funcs {
		if hasProp(c.Props, id) {
			funcs = append(funcs, c)
			pkgs[pkgPattern(c.PkgPath)] = true
		}
	}
	sort.Slice(funcs, func(i, j int) bool { return funcs[i].Key < funcs[j].Key })
	var lemmas []*Lemma
	for _, n := range db.LemmaOrder {
		if hasProp(db.Lemmas[n].Props, id) {
			lemmas = append(lemmas, db.Lemmas[n])
			if p := db.Lemmas[n].PkgPath; p != "" {
				pkgs[pkgPattern(p)] = true
			}
		}
	}
	var structs []*StructCheck
	for _, s := range db.Structs {
		if hasProp(s.Props, id) {
			structs = append(structs, s)
			if s.Pkg != "" {
				pkgs[pkgPattern(s.Pkg)] = true
			}
		}
	}
	for _, p := range cfg.ExtraPkgs {
		pkgs[p] = true
	}
	if len(funcs)+len(lemmas)+len(structs) == 0 {
		fmt.Printf("no contracts carry property %s\n", id)
		return violationNoInput(id, "contracts#none", "no contract, lemma or structural check carries this property", evPath, tier, seed, t0)
	}
	var pats []string
	for p := range pkgs {
		pats = append(pats, p)
	}
	sort.Strings(pats)
	e, err := loadEngine(*flagRepo, pats)
	if err != nil {
		return violationNoInput(id, "load#packages", "packages do not load: "+err.Error(), evPath, tier, seed, t0)
	}
	e.setDB(db)
	loadS := time.Since(t0).Seconds()

	timeout := *flagTimeout
	cross := *flagCross
	if tier == "thorough" {
		if timeout < 60 {
			timeout = 60
		}
		cross = true
	}

	var results []*FuncResult
	var trusted []string
	for _, c := range funcs {
		if c.Trusted {
			trusted = append(trusted, c.Key+" (assumed: "+c.TrustWhy+")")
			continue
		}
		fn := e.findFunc(c)
		if fn != nil && fn.TypeParams().Len() > 0 {
			insts := e.instancesOf(fn)
			if len(insts) == 0 {
				results = append(results, &FuncResult{Key: c.Key, Err: "generic function has no instantiation in the loaded packages"})
			}
			for _, inst := range insts {
				r := e.verifyInstance(c, inst)
				results = append(results, r)
			}
			continue
		}
		results = append(results, e.verifyFunc(c))
	}
	for _, l := range lemmas {
		results = append(results, e.verifyLemma(l))
	}
	structRes := e.runStructChecks(structs)

	dir, _ := os.MkdirTemp("", "govc-"+id)
	defer os.RemoveAll(dir)
	var all []*Obligation
	for _, r := range results {
		for _, o := range r.Obligs {
			if o.Props == nil || hasProp(o.Props, id) {
				all = append(all, o)
			}
		}
	}
	dischargeAll(all, dir, timeout, cross, *flagPar)
	// Obligations that ran out of time are retried once with a longer limit and
	// fewer competitors, so that machine load does not turn into an alarm.
	var retry []*Obligation
	knownEarly := loadKnownFindings(filepath.Join(*flagVerif, "known-findings.txt"))
	for _, o := range all {
		if !o.ok() && !o.Cover && (o.Result == "timeout" || o.Result == "unknown" || o.Result == "error") {
			// an obligation recorded as a (not repaired) finding is expected to fail: no second, longer attempt
			skip := false
			for _, k := range knownEarly {
				if k.Oblig == partSuffixRe.ReplaceAllString(o.Name, "") {
					skip = true
				}
			}
			if !skip {
				retry = append(retry, o)
			}
		}
	}
	nRetried := len(retry)
	if nRetried > 0 && nRetried <= 40 {
		dischargeAll(retry, dir, timeout*4, false, 5)
	}

	// ---- classify ------------------------------------------------------------
	known := loadKnownFindings(filepath.Join(*flagVerif, "known-findings.txt"))
	isKnown := func(name string) *knownFinding {
		for i := range known {
			// a finding is about an obligation; the obligation may serve several
			// properties and is reported under each of them
			if known[i].Oblig == name {
				return &known[i]
			}
		}
		return nil
	}
	type failure struct {
		name, detail, solverOut string
		ob                      *Obligation
	}
	var fails []failure
	var knownHit []string
	nOb, nDis, nCover, nCoverSat := 0, 0, 0, 0
	bySolver := map[string]int{}
	solverS := 0.0
	var samples []interface{}
	var fnames []string
	var notes []string
	extUsed := map[string]bool{}
	for _, r := range results {
		fnames = append(fnames, fmt.Sprintf("%s [%s] %d obligations", r.Key, r.Mode, len(r.Obligs)))
		for _, x := range r.ExtUsed {
			extUsed[x] = true
		}
		for _, n := range r.Notes {
			notes = append(notes, r.Key+": "+n)
		}
		if r.Err != "" {
			name := r.Key + "#vcgen"
			if k := isKnown(name); k != nil {
				knownHit = append(knownHit, fmt.Sprintf("KNOWN-FINDING: property=%s %s [%s]", id, k.What, name))
				continue
			}
			fails = append(fails, failure{name: name, detail: "verification conditions could not be generated: " + r.Err})
			continue
		}
		if min, ok := cfg.MinPerFn[r.Key]; ok && countReal(r.Obligs) < min {
			fails = append(fails, failure{name: r.Key + "#vacuity", detail: fmt.Sprintf("only %d obligations generated, committed minimum is %d", countReal(r.Obligs), min)})
		}
		// obligations whose names differ only in the /r<k> suffix are parts of one
		// obligation (one postcondition clause checked at each return point)
		type group struct {
			name  string
			parts []*Obligation
		}
		var groups []*group
		gidx := map[string]*group{}
		for _, o := range r.Obligs {
			if o.Props != nil && !hasProp(o.Props, id) {
				continue // the clause belongs to other properties of this function
			}
			solverS += o.Time
			base := partSuffixRe.ReplaceAllString(o.Name, "")
			g := gidx[base]
			if g == nil {
				g = &group{name: base}
				gidx[base] = g
				groups = append(groups, g)
			}
			g.parts = append(g.parts, o)
		}
		for _, g := range groups {
			o := g.parts[0]
			if o.Cover {
				nCover++
				if o.Result == "sat" {
					nCoverSat++
				}
				if !o.ok() {
					fails = append(fails, failure{name: o.Name, detail: "vacuity: assumptions are contradictory at this point (" + o.Note + ")", ob: o})
				}
				continue
			}
			var bad *Obligation
			for _, p := range g.parts {
				if !p.ok() && (bad == nil || p.Result == "sat" && bad.Result != "sat") {
					bad = p
				}
			}
			if bad == nil {
				nOb++
				nDis++
				bySolver[o.Solver]++
				if len(samples) < 6 && (strings.Contains(o.Kind, "post") || strings.Contains(o.Kind, "preserve") || strings.Contains(o.Kind, "ensures")) {
					samples = append(samples, map[string]interface{}{"obligation": g.name, "parts": len(g.parts), "what": o.Note, "result": o.Result, "solver": o.Solver, "solver_s": round3(o.Time), "mode": o.Mode.String(), "smt_bytes": len(o.script(false))})
				}
				continue
			}
			if k := isKnown(g.name); k != nil {
				knownHit = append(knownHit, fmt.Sprintf("KNOWN-FINDING: property=%s %s [%s]", id, k.What, g.name))
				continue
			}
			nOb++
			fails = append(fails, failure{name: g.name, detail: bad.Note + " -- solver result: " + bad.Result + " (part " + bad.Name + ")", ob: bad})
		}
	}
	for _, s := range structRes {
		nOb++
		if s.ok {
			nDis++
			bySolver["structural"]++
			if len(samples) < 8 {
				samples = append(samples, map[string]interface{}{"obligation": s.name, "what": s.detail, "result": "holds", "solver": "structural (SSA scan, no solver)"})
			}
			continue
		}
		if k := isKnown(s.name); k != nil {
			nOb--
			knownHit = append(knownHit, fmt.Sprintf("KNOWN-FINDING: property=%s %s [%s]", id, k.What, s.name))
			continue
		}
		fails = append(fails, failure{name: s.name, detail: s.detail})
	}
	if nOb < cfg.MinOblig {
		fails = append(fails, failure{name: id + "#vacuity", detail: fmt.Sprintf("only %d obligations generated for the property, committed minimum is %d", nOb, cfg.MinOblig)})
	}

	// ---- report ------------------------------------------------------------------
	sort.Strings(knownHit)
	for _, k := range knownHit {
		fmt.Println(k)
	}
	replayDir := filepath.Join(*flagVerif, "replays")
	if *flagEvDir != "" {
		replayDir = filepath.Join(*flagEvDir, "replays")
	}
	os.MkdirAll(replayDir, 0o755)
	nviol := 0
	for _, f := range fails {
		nviol++
		rp := filepath.Join(replayDir, id+"-"+sanitizeSym(strings.TrimPrefix(f.name, modPath+"/"))+".txt")
		suffix := ""
		body := fmt.Sprintf("property: %s\nobligation: %s\ndetail: %s\n", id, f.name, f.detail)
		confirmed := false
		if f.ob != nil {
			body += fmt.Sprintf("solver: %s result: %s\n", f.ob.Solver, f.ob.Result)
			if f.ob.Result != "sat" && !f.ob.Cover {
				// no model from the full query: look for a candidate input with the
				// quantified assumptions dropped; it counts only if the replay confirms it
				rf := filepath.Join(dir, "relaxed.smt2")
				os.WriteFile(rf, []byte(f.ob.relaxedScript()), 0o644)
				if r := runSolver(solvers[0], rf, 20); r.result == "sat" {
					saved := f.ob.Model
					f.ob.Model = r.output
					rep := e.replay(f.ob, id)
					if rep.confirmed {
						body += "\n--- candidate input (model of the query without quantified assumptions), CONFIRMED by replay ---\n" + rep.modelText + "\n--- replay against the real code ---\n" + rep.log + "\n"
						confirmed = true
					} else {
						body += "\n(candidate input from the relaxed query did not reproduce on the real code; discarded)\n"
						suffix = " no-failing-input-found"
						f.ob.Model = saved
					}
				} else {
					suffix = " no-failing-input-found"
				}
			} else if f.ob.Result == "sat" && !f.ob.Cover {
				rep := e.replay(f.ob, id)
				body += "\n--- counterexample (model projected on inputs) ---\n" + rep.modelText + "\n--- replay against the real code ---\n" + rep.log + "\n"
				confirmed = rep.confirmed
				if !rep.hasInput {
					suffix = " no-failing-input-found"
				}
			}
			body += "\n--- solver output ---\n" + truncate(f.ob.Model, 6000) + "\n"
		} else {
			suffix = " no-failing-input-found"
		}
		if confirmed {
			body += "\nreplay: CONFIRMED on the real code\n"
		}
		os.WriteFile(rp, []byte(body), 0o644)
		fmt.Printf("VIOLATION property=%s replay=%s obligation=%s%s\n", id, rp, f.name, suffix)
	}

	// ---- evidence -----------------------------------------------------------------
	var assumptions []string
	for x := range extUsed {
		assumptions = append(assumptions, x)
	}
	assumptions = append(assumptions, trusted...)
	sort.Strings(assumptions)
	assumptions = append(assumptions,
		"go/packages + go/ssa (x/tools v0.29.0) translate /repo faithfully; govc's symbolic semantics of SSA is correct",
		"SMT solvers (z3 5.1.0, z3 4.8.12, cvc5 1.0) are sound",
		"integers: exact fixed-width semantics (int = 64 bit), never mathematical; floats unconstrained",
		"goroutine interleavings are not explored: sequential semantics per function, shared state per DESIGN.md 2.9")
	sort.Strings(fnames)
	var usedC []string
	for k := range e.usedContracts {
		usedC = append(usedC, k)
	}
	sort.Strings(usedC)
	var inl []string
	for k := range e.inlined {
		inl = append(inl, k)
	}
	sort.Strings(inl)
	if len(samples) == 0 {
		for _, o := range all {
			if !o.Cover && len(samples) < 4 {
				samples = append(samples, map[string]interface{}{"obligation": o.Name, "what": o.Note, "result": o.Result, "solver": o.Solver})
			}
		}
	}
	ev := evidence{PropertyID: id, Tier: tier, Seed: seed, Level: "proof", WallS: round3(time.Since(t0).Seconds()), Violations: nviol, Assumptions: assumptions,
		Coverage: map[string]interface{}{
			"obligations":                nOb,
			"discharged":                 nDis,
			"checker_cmd":                fmt.Sprintf("bin/govc check %s %s (z3-new -T:%d | z3 | cvc5 portfolio, %d parallel)", id, tier, timeout, *flagPar),
			"trusted_base":               assumptions,
			"functions_under_contract":   fnames,
			"callee_contracts_used":      usedC,
			"callees_inlined":            inl,
			"by_solver":                  bySolver,
			"solver_s":                   round3(solverS),
			"load_s":                     round3(loadS),
			"covers":                     nCover,
			"covers_confirmed_reachable": nCoverSat,
			"known_findings":             knownHit,
			"samples":                    samples,
			"notes":                      notes,
			"structural_checks":          len(structRes),
			"cross_checked":              cross,
			"retried_after_timeout":      nRetried,
			"slowest":                    slowest(all, 5),
		}}
	if err := writeJSON(evPath, ev); err != nil {
		fmt.Println("cannot write evidence:", err)
	}
	fmt.Printf("%s %s: %d obligations, %d discharged, %d violations, %d known findings, %.1fs\n", id, tier, nOb, nDis, nviol, len(knownHit), time.Since(t0).Seconds())
	if nviol > 0 {
		return 1
	}
	return 0
}

func countReal(obs []*Obligation) int {
	n := 0
	for _, o := range obs {
		if !o.Cover {
			n++
		}
	}
	return n
}

func round3(f float64) float64 { return float64(int(f*1000+0.5)) / 1000 }

func truncate(s string, n int) string {
	if len(s) > n {
		return s[:n] + "\n...[truncated]"
	}
	return s
}

func violationNoInput(id, oblig, detail, evPath, tier string, seed int, t0 time.Time) int {
	replayDir := filepath.Join(*flagVerif, "replays")
	if *flagEvDir != "" {
		replayDir = filepath.Join(*flagEvDir, "replays")
	}
	os.MkdirAll(replayDir, 0o755)
	rp := filepath.Join(replayDir, id+"-"+sanitizeSym(oblig)+".txt")
	os.WriteFile(rp, []byte(fmt.Sprintf("property: %s\nobligation: %s\ndetail: %s\n", id, oblig, detail)), 0o644)
	fmt.Printf("VIOLATION property=%s replay=%s obligation=%s no-failing-input-found\n", id, rp, oblig)
	ev := evidence{PropertyID: id, Tier: tier, Seed: seed, Level: "proof", WallS: round3(time.Since(t0).Seconds()), Violations: 1,
		Coverage: map[string]interface{}{"obligations": 1, "discharged": 0, "checker_cmd": "bin/govc check " + id + " " + tier, "trusted_base": []string{}, "samples": []interface{}{detail}}}
	writeJSON(evPath, ev)
	return 1
}

func readJSON(path string, v interface{}) {
	b, err := os.ReadFile(path)
	if err != nil {
		return
	}
	jsonUnmarshal(b, v)
}

// verifyInstance verifies one instantiation of a generic function under the
// generic function's contract.
func (e *Engine) verifyInstance(c *Contract, inst *ssa.Function) *FuncResult {
	cc := *c
	cc.Key = c.PkgPath + "." + inst.Name()
	res := &FuncResult{Key: cc.Key}
	mode := detectMode(inst, map[*ssa.Function]bool{})
	if c.ModeSet {
		mode = c.Mode
	}
	res.Mode = mode
	var known map[string]string
	e.knownWritten = nil
	written := map[string]bool{}
	for pass := 0; pass < 6; pass++ {
		vc, err := e.genFunc(&cc, inst, mode, known)
		if err != "" {
			res.Err = err
			return res
		}
		grown := false
		if known == nil {
			known = map[string]string{}
		}
		for k, v := range vc.heapSort {
			if _, ok := known[k]; !ok {
				known[k] = v
				grown = true
			}
		}
		for k := range vc.written {
			if !written[k] {
				written[k] = true
				grown = true
			}
		}
		e.knownWritten = written
		if !grown || !e.anyLoopSeen {
			res.Obligs = vc.obligs
			for k := range vc.usedExt {
				res.ExtUsed = append(res.ExtUsed, k)
			}
			res.Notes = vc.notes
			return res
		}
	}
	res.Err = "heap map discovery did not reach a fixed point"
	return res
}

func hasTypeParamArgs(fn *ssa.Function) bool {
	for _, t := range fn.TypeArgs() {
		if _, ok := t.(*types.TypeParam); ok {
			return true
		}
	}
	return false
}

func slowest(obs []*Obligation, n int) []string {
	c := append([]*Obligation(nil), obs...)
	sort.Slice(c, func(i, j int) bool { return c[i].Time > c[j].Time })
	var out []string
	for i := 0; i < n && i < len(c); i++ {
		out = append(out, fmt.Sprintf("%.2fs %s %s", c[i].Time, c[i].Result, strings.TrimPrefix(c[i].Name, modPath+"/")))
	}
	return out
}
