package main

import (
	"fmt"
	"os"
)

func cmdDump(names []string) int {
	db, err := loadDB()
	if err != nil {
		fmt.Println(err)
		return 2
	}
	_ = db
	if len(names) < 2 {
		fmt.Println("usage: govc dump <pkgpattern> <Func|Type.Method>")
		return 2
	}
	e, err := loadEngine(*flagRepo, []string{names[0]})
	if err != nil {
		fmt.Println(err)
		return 2
	}
	for _, fn := range e.allFunctionsNamed(names[1]) {
		fn.WriteTo(os.Stdout)
	}
	return 0
}
