package main

// Symbolic execution of go/ssa (NaiveForm) with state merging and loop cutting.

import (
	"go/ast"
	"fmt"
	"go/constant"
	"go/token"
	"go/types"
	"math/big"
	"os"
	"sort"
	"strings"

	"golang.org/x/tools/go/ssa"
)

const (
	tokGEQ = token.GEQ
	tokLEQ = token.LEQ
	tokLSS = token.LSS
	tokGTR = token.GTR
	tokEQL = token.EQL
	tokNEQ = token.NEQ
)

type Frame struct {
	fn         *ssa.Function
	regs       map[ssa.Value]SV
	cellOf     map[*ssa.Alloc]*Cell
	defers     []deferred
	contract   *Contract // when this is the function under verification
	depth      int
	prefix     string // obligation name prefix for inlined frames
	entry      *State // entry state (for old())
	params     []SV
	top        bool
	loopOrd    map[*ssa.BasicBlock]int
	retStates  []*State
	retVals    []SV
	variantAt  map[*ssa.BasicBlock]string
	variantT   types.Type
	loopEntry  map[*ssa.BasicBlock]*State
	recovers   bool
	curBlock   *ssa.BasicBlock
	loops      []*loopCtx
	nilChecked map[string]*ssa.BasicBlock
	siteDone   map[string]bool
	callHits   map[int]int
	siteHits   int
}

type retInfo struct {
	st  *State
	val SV
}

func (e *Engine) newCell(name string, t types.Type) *Cell {
	e.ncell++
	return &Cell{Name: name, Typ: t, id: e.ncell}
}

// ---- CFG helpers -------------------------------------------------------

type loopInfo struct {
	header *ssa.BasicBlock
	body   map[*ssa.BasicBlock]bool
}

func backEdge(from, to *ssa.BasicBlock) bool { return to.Dominates(from) }

func reachableBlocks(fn *ssa.Function) map[*ssa.BasicBlock]bool {
	seen := map[*ssa.BasicBlock]bool{}
	var walk func(b *ssa.BasicBlock)
	walk = func(b *ssa.BasicBlock) {
		if seen[b] {
			return
		}
		seen[b] = true
		for _, s := range b.Succs {
			walk(s)
		}
	}
	if len(fn.Blocks) > 0 {
		walk(fn.Blocks[0])
	}
	if fn.Recover != nil {
		// recover block is only entered after a recovered panic; treated separately
	}
	return seen
}

// topological order of the CFG with back edges removed
func topoOrder(fn *ssa.Function) []*ssa.BasicBlock {
	reach := reachableBlocks(fn)
	indeg := map[*ssa.BasicBlock]int{}
	for b := range reach {
		for _, s := range b.Succs {
			if !backEdge(b, s) {
				indeg[s]++
			}
		}
	}
	var order []*ssa.BasicBlock
	var ready []*ssa.BasicBlock
	ready = append(ready, fn.Blocks[0])
	for len(ready) > 0 {
		// deterministic: lowest index first
		sort.Slice(ready, func(i, j int) bool { return ready[i].Index < ready[j].Index })
		b := ready[0]
		ready = ready[1:]
		order = append(order, b)
		for _, s := range b.Succs {
			if backEdge(b, s) {
				continue
			}
			indeg[s]--
			if indeg[s] == 0 {
				ready = append(ready, s)
			}
		}
	}
	if len(order) != len(reach) {
		panic(engErr(fmt.Sprintf("irreducible control flow in %s (%d of %d blocks ordered)", fn, len(order), len(reach))))
	}
	return order
}

func naturalLoop(header *ssa.BasicBlock) map[*ssa.BasicBlock]bool {
	body := map[*ssa.BasicBlock]bool{header: true}
	var stack []*ssa.BasicBlock
	for _, p := range header.Preds {
		if backEdge(p, header) {
			if !body[p] {
				body[p] = true
				stack = append(stack, p)
			}
		}
	}
	for len(stack) > 0 {
		b := stack[len(stack)-1]
		stack = stack[:len(stack)-1]
		for _, p := range b.Preds {
			if !body[p] {
				body[p] = true
				stack = append(stack, p)
			}
		}
	}
	return body
}

func isLoopHeader(b *ssa.BasicBlock) bool {
	for _, p := range b.Preds {
		if backEdge(p, b) {
			return true
		}
	}
	return false
}

// loop ordinals in source order (by position of the header's first instruction with a position,
// falling back to block index)
func loopOrdinals(fn *ssa.Function) map[*ssa.BasicBlock]int {
	var hs []*ssa.BasicBlock
	for b := range reachableBlocks(fn) {
		if isLoopHeader(b) {
			hs = append(hs, b)
		}
	}
	pos := func(b *ssa.BasicBlock) token.Pos {
		best := token.NoPos
		for blk := range naturalLoop(b) {
			for _, in := range blk.Instrs {
				if p := in.Pos(); p.IsValid() && (best == token.NoPos || p < best) {
					best = p
				}
			}
		}
		return best
	}
	sort.Slice(hs, func(i, j int) bool {
		pi, pj := pos(hs[i]), pos(hs[j])
		if pi != pj {
			return pi < pj
		}
		return hs[i].Index < hs[j].Index
	})
	m := map[*ssa.BasicBlock]int{}
	for i, h := range hs {
		m[h] = i + 1
	}
	return m
}

// ---- running a function --------------------------------------------------

type edgeState struct {
	from *ssa.BasicBlock
	st   *State
}

// runFunc symbolically executes fn from state st with the given arguments and
// returns the merged state at its return points and the result value (nil if
// no path returns).
func (e *Engine) runFunc(fr *Frame, st *State) (*State, SV) {
	fn := fr.fn
	if len(fn.Blocks) == 0 {
		panic(engErr("no body for " + fn.String()))
	}
	order := topoOrder(fn)
	fr.loopOrd = loopOrdinals(fn)
	fr.variantAt = map[*ssa.BasicBlock]string{}
	fr.loopEntry = map[*ssa.BasicBlock]*State{}
	in := map[*ssa.BasicBlock][]edgeState{}
	in[fn.Blocks[0]] = []edgeState{{nil, st}}

	// parameters
	for i, p := range fn.Params {
		fr.regs[p] = fr.params[i]
	}
	for i, fv := range fn.FreeVars {
		fr.regs[fv] = fr.params[len(fn.Params)+i]
	}

	for _, b := range order {
		ins := in[b]
		if len(ins) == 0 {
			continue // unreachable under the explored paths
		}
		var sts []*State
		for _, es := range ins {
			sts = append(sts, es.st)
		}
		cur := e.merge(sts)
		if cur.pc == "false" {
			continue
		}
		// phis
		for _, instr := range b.Instrs {
			phi, ok := instr.(*ssa.Phi)
			if !ok {
				break
			}
			var val SV
			for k := len(ins) - 1; k >= 0; k-- {
				es := ins[k]
				idx := -1
				for pi, p := range b.Preds {
					if p == es.from {
						idx = pi
					}
				}
				if idx < 0 {
					panic(engErr("phi: predecessor not found"))
				}
				v := e.val(fr, phi.Edges[idx])
				if val == nil {
					val = v
				} else {
					val = e.mergeSV(phi.Type(), es.st.pc, v, val, "phi")
				}
			}
			fr.regs[phi] = val
		}
		if isLoopHeader(b) {
			cur = e.loopHeader(fr, b, cur)
		}
		e.execBlock(fr, b, cur, in)
	}
	if len(fr.retStates) == 0 {
		return nil, nil
	}
	// merge returns
	out := e.merge(fr.retStates)
	var rv SV
	rt := fn.Signature.Results()
	if rt.Len() > 0 {
		var typ types.Type = rt
		if rt.Len() == 1 {
			typ = rt.At(0).Type()
		}
		for k := len(fr.retStates) - 1; k >= 0; k-- {
			if rv == nil {
				rv = fr.retVals[k]
			} else {
				rv = e.mergeSV(typ, fr.retStates[k].pc, fr.retVals[k], rv, "ret")
			}
		}
	}
	return out, rv
}

func (e *Engine) oname(fr *Frame, kind string) string {
	return fr.prefix + kind
}

// execBlock executes the non-phi instructions of b.
func (e *Engine) execBlock(fr *Frame, b *ssa.BasicBlock, st *State, in map[*ssa.BasicBlock][]edgeState) {
	fr.curBlock = b
	for _, instr := range b.Instrs {
		if _, ok := instr.(*ssa.Phi); ok {
			continue
		}
		if st.pc == "false" {
			return
		}
		if fr.top && e.curContract != nil && len(e.curContract.SiteAsserts) > 0 {
			e.siteAsserts(fr, st, instr)
		}
		switch v := instr.(type) {
		case *ssa.If:
			c := e.scalar(fr, v.Cond)
			e.flow(fr, b, b.Succs[0], st, c, in)
			e.flow(fr, b, b.Succs[1], st, not(c), in)
			return
		case *ssa.Jump:
			e.flow(fr, b, b.Succs[0], st, "true", in)
			return
		case *ssa.Return:
			var rv SV
			switch len(v.Results) {
			case 0:
			case 1:
				rv = e.val(fr, v.Results[0])
			default:
				t := &TupleSV{}
				for _, r := range v.Results {
					t.E = append(t.E, e.val(fr, r))
				}
				rv = t
			}
			fr.retStates = append(fr.retStates, st)
			fr.retVals = append(fr.retVals, rv)
			return
		case *ssa.Panic:
			if !fr.recovers {
				e.panicSite(fr, st, v)
			}
			return
		default:
			if c := e.curContract; c != nil && c.Partial && fr.top {
				if msg, failed := e.tryExec(fr, st, instr); failed {
					e.abandonPath(fr, st, instr, msg)
					return
				}
			} else {
				e.execInstr(fr, st, instr)
			}
		}
	}
}

func (e *Engine) tryExec(fr *Frame, st *State, instr ssa.Instruction) (msg string, failed bool) {
	defer func() {
		if r := recover(); r != nil {
			switch v := r.(type) {
			case engErr:
				msg, failed = string(v), true
			case specErr:
				msg, failed = string(v), true
			default:
				panic(r)
			}
		}
	}()
	e.execInstr(fr, st, instr)
	return "", false
}

// abandonPath: the path reached a construct outside the subset. Nothing is claimed
// beyond this point; to keep the postconditions sound, each clause `A ==> B` must
// have A false here (A may only mention inputs and the entry state).
func (e *Engine) abandonPath(fr *Frame, st *State, instr ssa.Instruction, msg string) {
	c := e.curContract
	e.vc.note("path abandoned at " + e.posStr(instr.Pos()) + ": " + msg)
	e.abandoned++
	// The rest of the path is unknown: every postcondition must hold whatever the results
	// and the final heap and ghost state are (only old(...) terms and the path condition
	// carry information).
	fin := st.clone()
	names := make([]string, 0, len(e.vc.heapSort))
	for name := range e.vc.heapSort {
		names = append(names, name)
	}
	sortStrings(names)
	for _, name := range names {
		fin.heap[name] = e.vc.declare("HA_"+name, e.vc.heapSort[name])
	}
	var gs []string
	for g := range fin.ghost {
		gs = append(gs, g)
	}
	sortStrings(gs)
	for _, g := range gs {
		fin.ghost[g] = e.vc.declare("GA_"+g, e.ghostSort(g))
	}
	e.anyLoopSeen = true // maps first touched later must be part of this havoc: another pass
	var rv SV
	if rt := resultType(fr.fn.Signature); rt != nil {
		rv = e.freshSV(rt, "r_abandoned", st.pc, fin)
	}
	env := e.contractEnv(c, fr.fn, fr.params, fin)
	env = e.bindResults(env, c, fr.fn.Signature, rv)
	env.cur = fin
	env.old = fr.entry
	for i, q := range c.Ensures {
		goal := "false"
		if t, err := e.tryEvalBool(env, q.Expr); err == nil {
			goal = t
		}
		ob := e.vc.oblige(fmt.Sprintf("post:%d/a%d", i+1, e.abandoned), st.pc, goal, "postcondition must hold whatever the abandoned rest of the path does ("+e.posStr(instr.Pos())+"): "+q.Text)
		ob.Props = q.Props
	}
	st.pc = "false"
}

func (e *Engine) panicSite(fr *Frame, st *State, v *ssa.Panic) {
	c := e.topContract(fr)
	if c != nil && c.MayPanic {
		return
	}
	e.vc.oblige(e.oname(fr, "safety:panic#"), st.pc, "false", "explicit panic must be unreachable: "+e.posStr(v.Pos()))
}

func (e *Engine) topContract(fr *Frame) *Contract { return e.curContract }

func (e *Engine) posStr(p token.Pos) string {
	if !p.IsValid() {
		return "?"
	}
	pos := e.prog.Fset.Position(p)
	f := pos.Filename
	if i := strings.Index(f, "/repo/"); i >= 0 {
		f = f[i+6:]
	}
	return fmt.Sprintf("%s:%d", f, pos.Line)
}

func (e *Engine) flow(fr *Frame, from, to *ssa.BasicBlock, st *State, cond string, in map[*ssa.BasicBlock][]edgeState) {
	ns := st.clone()
	if cond != "true" {
		ns.pc = e.vc.define("pc", "Bool", and(st.pc, cond))
	}
	if ns.pc == "false" {
		return
	}
	if backEdge(from, to) {
		e.loopBack(fr, to, ns)
		return
	}
	in[to] = append(in[to], edgeState{from, ns})
}

// ---- values ------------------------------------------------------------

func (e *Engine) val(fr *Frame, v ssa.Value) SV {
	if sv, ok := fr.regs[v]; ok {
		return sv
	}
	switch x := v.(type) {
	case *ssa.Const:
		return e.constSV(x)
	case *ssa.Function:
		return &FuncSV{Fn: x}
	case *ssa.Global:
		return &PtrSV{Kind: pkGlobal, Glob: x, Root: x.Type().(*types.Pointer).Elem()}
	case *ssa.Builtin:
		return &FuncSV{}
	}
	panic(engErr(fmt.Sprintf("value %s (%T) has no symbolic value in %s", v.Name(), v, fr.fn)))
}

func (e *Engine) scalar(fr *Frame, v ssa.Value) string {
	sv := e.val(fr, v)
	switch s := sv.(type) {
	case *Sc:
		return s.T
	case *PtrSV:
		return e.ptrTerm(s)
	case *FuncSV:
		if s.Term != "" {
			return s.Term
		}
		return e.funcID(s)
	}
	panic(engErr(fmt.Sprintf("scalar: %T for %s", sv, v)))
}

func (e *Engine) constSV(c *ssa.Const) SV {
	t := c.Type()
	if c.Value == nil {
		// zero value / nil
		return e.zero(t)
	}
	switch u := t.Underlying().(type) {
	case *types.Basic:
		if w, s, ok := intInfo(u); ok {
			b, ok := constToBig(c.Value)
			if !ok {
				panic(engErr("bad int const " + c.String()))
			}
			return &Sc{e.ar.Const(b, w, s)}
		}
		switch {
		case u.Info()&types.IsBoolean != 0:
			if constant.BoolVal(c.Value) {
				return &Sc{"true"}
			}
			return &Sc{"false"}
		case u.Info()&types.IsString != 0:
			return &Sc{e.strConstID(constant.StringVal(c.Value))}
		case u.Info()&types.IsFloat != 0:
			return &Sc{e.floatConst(c.Value.ExactString())}
		}
	}
	panic(engErr("unsupported constant " + c.String()))
}

func (e *Engine) floatConst(s string) string {
	n := "fconst_" + sanitizeSym(s)
	e.vc.declareNamed(n, "Float")
	return n
}

func (e *Engine) bigConst(v int64) *big.Int { return big.NewInt(v) }

// idx builds an index-sorted constant
func (e *Engine) idxc(v int64) string { return e.ar.ConstI(v, 64, true) }

func (e *Engine) idxAdd(a, b string) string {
	if a == e.idxc(0) {
		return b
	}
	if b == e.idxc(0) {
		return a
	}
	if e.ar.mode == ModeBV {
		return fmt.Sprintf("(bvadd %s %s)", a, b)
	}
	r := fmt.Sprintf("(+ %s %s)", a, b)
	if ai, ok := e.ar.getIv(a); ok {
		if bi, ok := e.ar.getIv(b); ok {
			if ri, ok := ivlOp(token.ADD, ai, bi); ok {
				e.ar.setIv(r, ri.lo, ri.hi)
			}
		}
	}
	return r
}

func (e *Engine) idxSub(a, b string) string {
	if b == e.idxc(0) {
		return a
	}
	if e.ar.mode == ModeBV {
		return fmt.Sprintf("(bvsub %s %s)", a, b)
	}
	return fmt.Sprintf("(- %s %s)", a, b)
}

func (e *Engine) idxLe(a, b string) string { return e.ar.Cmp(token.LEQ, a, b, true) }
func (e *Engine) idxLt(a, b string) string { return e.ar.Cmp(token.LSS, a, b, true) }

// convert an integer SSA value to an index term (64-bit signed)
func (e *Engine) toIdx(fr *Frame, v ssa.Value) string {
	t := e.scalar(fr, v)
	w, s, ok := intInfo(v.Type())
	if !ok {
		panic(engErr("index is not an integer"))
	}
	return e.ar.Convert(t, w, s, 64, true)
}

// ---- instructions --------------------------------------------------------

func (e *Engine) execInstr(fr *Frame, st *State, instr ssa.Instruction) {
	switch v := instr.(type) {
	case *ssa.DebugRef:
	case *ssa.Alloc:
		e.execAlloc(fr, st, v)
	case *ssa.Store:
		p := e.val(fr, v.Addr)
		e.store(fr, st, p, v.Val.Type(), e.val(fr, v.Val), "store")
	case *ssa.UnOp:
		fr.regs[v] = e.execUnOp(fr, st, v)
	case *ssa.BinOp:
		fr.regs[v] = e.execBinOp(fr, st, v)
	case *ssa.Convert:
		fr.regs[v] = e.execConvert(fr, st, v)
	case *ssa.ChangeType:
		fr.regs[v] = e.val(fr, v.X)
	case *ssa.ChangeInterface:
		fr.regs[v] = e.val(fr, v.X)
	case *ssa.MakeInterface:
		fr.regs[v] = e.makeInterface(fr, st, v.X.Type(), e.val(fr, v.X))
	case *ssa.TypeAssert:
		fr.regs[v] = e.typeAssert(fr, st, v)
	case *ssa.Extract:
		t := e.val(fr, v.Tuple).(*TupleSV)
		fr.regs[v] = t.E[v.Index]
	case *ssa.FieldAddr:
		fr.regs[v] = e.fieldAddr(fr, st, v)
	case *ssa.Field:
		s := e.val(fr, v.X).(*StructSV)
		fr.regs[v] = s.F[v.Field]
	case *ssa.IndexAddr:
		fr.regs[v] = e.indexAddr(fr, st, v)
	case *ssa.Index:
		fr.regs[v] = e.index(fr, st, v)
	case *ssa.Slice:
		fr.regs[v] = e.slice(fr, st, v)
	case *ssa.MakeSlice:
		fr.regs[v] = e.makeSlice(fr, st, v)
	case *ssa.MakeClosure:
		f := &FuncSV{Fn: v.Fn.(*ssa.Function)}
		for _, b := range v.Bindings {
			f.Bind = append(f.Bind, e.val(fr, b))
		}
		fr.regs[v] = f
	case *ssa.Call:
		r := e.call(fr, st, v.Common(), v, v.Pos())
		if r != nil {
			fr.regs[v] = r
		}
	case *ssa.Defer:
		d := deferred{pc: st.pc, call: v.Common(), inst: v}
		for _, a := range v.Call.Args {
			d.args = append(d.args, e.val(fr, a))
		}
		if !v.Call.IsInvoke() {
			d.fn = e.val(fr, v.Call.Value)
		} else {
			d.fn = e.val(fr, v.Call.Value)
		}
		fr.defers = append(fr.defers, d)
	case *ssa.RunDefers:
		e.runDefers(fr, st, v.Block())
	case *ssa.Go:
		// the spawned body is not executed here; arguments are evaluated
		e.vc.note("go statement skipped (spawned body not part of this function's sequential semantics): " + e.posStr(v.Pos()))
	case *ssa.MakeMap:
		fr.regs[v] = e.makeMap(fr, st, v)
	case *ssa.MapUpdate:
		e.mapUpdate(fr, st, v)
	case *ssa.Lookup:
		fr.regs[v] = e.lookup(fr, st, v)
	case *ssa.MakeChan:
		st.wm = e.vc.define("wm", "Int", fmt.Sprintf("(+ %s 1)", st.wm))
		fr.regs[v] = &Sc{st.wm}
	case *ssa.Send:
		// no effect on modelled state
	case *ssa.Select:
		fr.regs[v] = e.selectInstr(fr, st, v)
	case *ssa.Range:
		fr.regs[v] = e.rangeInit(fr, st, v)
	case *ssa.Next:
		fr.regs[v] = e.rangeNext(fr, st, v)
	case *ssa.SliceToArrayPointer:
		panic(engErr("SliceToArrayPointer unsupported"))
	case *ssa.MultiConvert:
		panic(engErr("MultiConvert unsupported"))
	default:
		panic(engErr(fmt.Sprintf("unsupported instruction %T: %s", instr, instr)))
	}
}

func (vc *VC) note(s string) {
	for _, n := range vc.notes {
		if n == s {
			return
		}
	}
	vc.notes = append(vc.notes, s)
}

func (e *Engine) execAlloc(fr *Frame, st *State, v *ssa.Alloc) {
	t := v.Type().(*types.Pointer).Elem()
	name := v.Comment
	if name == "" {
		name = v.Name()
	}
	if !v.Heap || !allocEscapes(v) {
		// (a variable captured only by closures that this function itself defers or calls
		// is kept as a local cell: no callee can reach it)
		cell := fr.cellOf[v]
		if cell == nil {
			cell = e.newCell(fr.prefix+name, t)
			fr.cellOf[v] = cell
		}
		if isDeferStack(t) {
			st.cells[cell] = &Sc{"0"}
		} else {
			st.cells[cell] = e.zero(t)
		}
		fr.regs[v] = &PtrSV{Kind: pkLocal, Cell: cell, Root: t}
		return
	}
	ref := e.allocRef(st, name)
	p := &PtrSV{Kind: pkHeap, Ref: ref, Root: t}
	fr.regs[v] = p
	e.storeRaw(st, p, t, e.zero(t))
}

// allocEscapes: the address of a heap-allocated local may be seen outside this function
// and the closures it runs itself (deferred or called in place).
func allocEscapes(v *ssa.Alloc) bool {
	refs := v.Referrers()
	if refs == nil {
		return true
	}
	for _, r := range *refs {
		switch u := r.(type) {
		case *ssa.Store:
			if u.Val == ssa.Value(v) {
				return true
			}
		case *ssa.UnOp, *ssa.DebugRef:
		case *ssa.MakeClosure:
			fn, ok := u.Fn.(*ssa.Function)
			if !ok {
				return true
			}
			crefs := u.Referrers()
			if crefs == nil {
				return true
			}
			closureEscapes := false
			for _, cr := range *crefs {
				switch cu := cr.(type) {
				case *ssa.Defer:
					if cu.Call.Value != ssa.Value(u) {
						closureEscapes = true
					}
				case *ssa.Call:
					if cu.Call.Value != ssa.Value(u) {
						closureEscapes = true
					}
				case *ssa.DebugRef:
				default:
					closureEscapes = true
				}
			}
			if closureEscapes {
				// the function literal is handed to someone else (a callee, a goroutine): the variable
				// stays under this function's control only if the literal does nothing but read it
				for i, b := range u.Bindings {
					if b != ssa.Value(v) || i >= len(fn.FreeVars) {
						continue
					}
					if !freeVarReadOnly(fn.FreeVars[i]) {
						return true
					}
				}
				continue
			}
			// the closure itself must not let the address out
			for i, b := range u.Bindings {
				if b != ssa.Value(v) || i >= len(fn.FreeVars) {
					continue
				}
				if freeVarEscapes(fn.FreeVars[i], 0) {
					return true
				}
			}
		default:
			return true
		}
	}
	return false
}

// freeVarReadOnly: the function literal only loads the captured variable (no store to it, its
// address goes nowhere - not even into a nested literal).
func freeVarReadOnly(fv *ssa.FreeVar) bool {
	refs := fv.Referrers()
	if refs == nil {
		return true
	}
	for _, r := range *refs {
		switch u := r.(type) {
		case *ssa.UnOp:
			if u.Op != token.MUL {
				return false
			}
		case *ssa.DebugRef:
		default:
			return false
		}
	}
	return true
}

func freeVarEscapes(fv *ssa.FreeVar, depth int) bool {
	refs := fv.Referrers()
	if refs == nil {
		return false
	}
	for _, r := range *refs {
		switch u := r.(type) {
		case *ssa.Store:
			if u.Val == ssa.Value(fv) {
				return true
			}
		case *ssa.UnOp, *ssa.DebugRef:
		default:
			return true
		}
	}
	return false
}

func isDeferStack(t types.Type) bool {
	return strings.Contains(t.String(), "deferStack")
}

func (e *Engine) allocRef(st *State, name string) string {
	st.wm = e.vc.define("wm", "Int", fmt.Sprintf("(+ %s 1)", st.wm))
	return st.wm
}

// ---- memory ----------------------------------------------------------------

// heapMapName for a leaf of the object of type root at the given path suffix
func (e *Engine) heapMapFor(root types.Type, leafSuffix string, leafSort string) (name, sort string, viaArray bool) {
	switch root.Underlying().(type) {
	case *types.Struct:
		return "F_" + e.typeKey(root) + leafSuffix, fmt.Sprintf("(Array Int %s)", leafSort), false
	case *types.Array:
		// leafSuffix begins with "[]"
		el := root.Underlying().(*types.Array).Elem()
		return "M_" + e.typeKey(el) + strings.TrimPrefix(leafSuffix, "[]"), fmt.Sprintf("(Array Int %s)", leafSort), true
	}
	return "B_" + e.typeKey(root) + leafSuffix, fmt.Sprintf("(Array Int %s)", leafSort), false
}

// backing map for slice elements of type el, leaf l of the element
func (e *Engine) backingMap(el types.Type, l Leaf) (name, sort string) {
	return "M_" + e.typeKey(el) + l.Suffix, fmt.Sprintf("(Array Int (Array %s %s))", e.ar.idxSort(), l.Sort)
}

// typeAtPath returns the type reached from root via path, and the leaf-suffix prefix.
func (e *Engine) typeAtPath(root types.Type, path []pathEl) (types.Type, string) {
	t := root
	suffix := ""
	for _, p := range path {
		switch u := t.Underlying().(type) {
		case *types.Struct:
			f := u.Field(p.field)
			name := f.Name()
			if name == "_" {
				name = fmt.Sprintf("_blank%d", p.field)
			}
			suffix += "." + name
			t = f.Type()
		case *types.Array:
			suffix += "[]"
			t = u.Elem()
		default:
			panic(engErr("typeAtPath: bad path through " + t.String()))
		}
	}
	return t, suffix
}

// arrayIdxInPath returns the (single) array index term in a path, if any
func arrayIdxInPath(path []pathEl) (string, int) {
	idx := ""
	n := 0
	for _, p := range path {
		if p.field == -1 {
			idx = p.idx
			n++
		}
	}
	return idx, n
}

func (e *Engine) nilCheck(fr *Frame, st *State, ref string, what string) {
	if strings.HasPrefix(ref, "wm!") {
		return // freshly allocated
	}
	if fr == nil {
		return
	}
	if fr.nilChecked == nil {
		fr.nilChecked = map[string]*ssa.BasicBlock{}
	}
	if b, ok := fr.nilChecked[ref]; ok && fr.curBlock != nil && b.Dominates(fr.curBlock) {
		return // already established on every path to this point
	}
	if fr.curBlock != nil {
		fr.nilChecked[ref] = fr.curBlock
	}
	defer e.vc.assume(st.pc, fmt.Sprintf("(not (= %s 0))", ref))
	e.vc.oblige(e.oname(fr, "safety:nil#"), st.pc, fmt.Sprintf("(not (= %s 0))", ref), "nil dereference: "+what)
}

func (e *Engine) load(fr *Frame, st *State, pv SV, t types.Type, what string) SV {
	p, ok := pv.(*PtrSV)
	if !ok {
		if s, ok2 := pv.(*Sc); ok2 {
			p = e.heapPtr(s.T, t)
		} else {
			panic(engErr(fmt.Sprintf("load through %T", pv)))
		}
	}
	switch p.Kind {
	case pkLocal:
		cur, ok := st.cells[p.Cell]
		if !ok {
			panic(engErr("load of dead cell " + p.Cell.Name))
		}
		return e.navGet(p.Cell.Typ, cur, p.Path)
	case pkHeap:
		if fr != nil {
			e.nilCheck(fr, st, p.Ref, what)
		}
		return e.loadRaw(st, p, t)
	case pkElem:
		if p.MaybeNil && fr != nil {
			e.nilCheck(fr, st, p.Ref, what)
		}
		return e.loadRaw(st, p, t)
	case pkGlobal:
		v := e.loadRaw(st, &PtrSV{Kind: pkHeap, Ref: e.globalRef(p.Glob), Root: p.Root, Path: p.Path}, t)
		if len(p.Path) == 0 {
			e.assumeGlobalInvOn(p.Glob, v, t, st)
		}
		return v
	}
	panic(engErr("load: bad pointer kind"))
}

func (e *Engine) globalRef(g *ssa.Global) string {
	if r, ok := e.vc.globals[g]; ok {
		return r
	}
	r := fmt.Sprintf("(- %d)", 10+len(e.vc.globals))
	e.vc.globals[g] = r
	return r
}

func (e *Engine) loadRaw(st *State, p *PtrSV, t types.Type) SV {
	if p.Kind == pkHeap && p.Either {
		alts, ph := e.alternatives(p)
		lv := e.leaves(t)
		cur := e.flatten(t, e.loadRaw(st, ph, t))
		for k := len(alts) - 1; k >= 0; k-- {
			va := e.flatten(t, e.loadRaw(st, alts[k].ptr, t))
			for i := range lv {
				cur[i] = e.vc.define("ld", lv[i].Sort, fmt.Sprintf("(ite %s %s %s)", alts[k].cond, va[i], cur[i]))
			}
		}
		return e.unflat(t, cur)
	}
	tt, prefix := e.typeAtPath(p.Root, p.Path)
	_ = tt
	lv := e.leaves(t)
	idx, nidx := arrayIdxInPath(p.Path)
	if nidx > 1 {
		panic(engErr("nested array path unsupported"))
	}
	out := make([]string, len(lv))
	for i, l := range lv {
		var term string
		if p.Kind == pkElem {
			name, srt := e.backingMap(p.Root, Leaf{Suffix: prefix + l.Suffix, Sort: l.Sort})
			if nidx == 1 {
				// array inside element: leaf sort is array
				name, srt = e.backingMap(p.Root, Leaf{Suffix: prefix + l.Suffix, Sort: fmt.Sprintf("(Array %s %s)", e.ar.idxSort(), l.Sort)})
				term = fmt.Sprintf("(select (select (select %s %s) %s) %s)", e.heapGet(st, name, srt), p.Ref, p.Idx, idx)
			} else {
				term = fmt.Sprintf("(select (select %s %s) %s)", e.heapGet(st, name, srt), p.Ref, p.Idx)
			}
		} else {
			ls := l.Sort
			if nidx == 1 {
				ls = fmt.Sprintf("(Array %s %s)", e.ar.idxSort(), l.Sort)
			}
			name, srt, _ := e.heapMapFor(p.Root, prefix+l.Suffix, ls)
			if _, isArr := p.Root.Underlying().(*types.Array); isArr && len(p.Path) == 0 {
				// loading a whole array object
				name, srt, _ = e.heapMapFor(p.Root, l.Suffix, l.Sort)
			}
			if nidx == 1 {
				term = fmt.Sprintf("(select (select %s %s) %s)", e.heapGet(st, name, srt), p.Ref, idx)
			} else {
				term = fmt.Sprintf("(select %s %s)", e.heapGet(st, name, srt), p.Ref)
			}
		}
		term = e.vc.define("ld", l.Sort, term)
		out[i] = term
		e.assumeLoadedLeaf(l, term, st)
	}
	v := e.unflat(t, out)
	if e.vc.noDef == 0 {
		e.assumeWF(t, v) // slice headers in memory are well formed (len <= cap, ...)
	}
	return v
}

func (e *Engine) assumeLoadedLeaf(l Leaf, term string, st *State) {
	if strings.HasPrefix(l.Sort, "(Array ") {
		return
	}
	switch l.Kind {
	case lkInt:
		if e.ar.mode == ModeInt {
			w, s, _ := intInfo(l.Typ)
			e.vc.assume("true", e.ar.InRange(term, w, s))
			e.ar.setTypeIv(term, w, s)
		}
	case lkIdx:
		e.vc.assume("true", e.ar.Cmp(tokGEQ, term, e.idxc(0), true))
		if e.ar.mode == ModeInt {
			e.vc.assume("true", e.ar.InRange(term, 64, true))
			e.ar.setIv(term, big.NewInt(0), new(big.Int).Sub(pow2(63), big.NewInt(1)))
		}
	case lkRef:
		e.vc.assume("true", fmt.Sprintf("(<= %s %s)", term, st.wm))
	}
}

func (e *Engine) store(fr *Frame, st *State, pv SV, t types.Type, v SV, what string) {
	p, ok := pv.(*PtrSV)
	if !ok {
		if s, ok2 := pv.(*Sc); ok2 {
			p = e.heapPtr(s.T, t)
		} else {
			panic(engErr(fmt.Sprintf("store through %T", pv)))
		}
	}
	switch p.Kind {
	case pkLocal:
		cur := st.cells[p.Cell]
		st.cells[p.Cell] = e.navSet(p.Cell.Typ, cur, p.Path, v)
		return
	case pkHeap:
		e.nilCheck(fr, st, p.Ref, what)
		e.frameCheck(fr, st, p, t)
		e.storeRaw(st, p, t, v)
	case pkElem:
		if p.MaybeNil {
			e.nilCheck(fr, st, p.Ref, what)
		}
		e.frameCheck(fr, st, p, t)
		e.storeRaw(st, p, t, v)
	case pkGlobal:
		gp := &PtrSV{Kind: pkHeap, Ref: e.globalRef(p.Glob), Root: p.Root, Path: p.Path}
		e.frameCheck(fr, st, gp, t)
		e.storeRaw(st, gp, t, v)
	}
}

func (e *Engine) storeRaw(st *State, p *PtrSV, t types.Type, v SV) {
	if p.Kind == pkHeap && p.Either {
		alts, ph := e.alternatives(p)
		base := st.clone()
		sh := base.clone()
		e.storeRaw(sh, ph, t, v)
		result := sh
		for k := len(alts) - 1; k >= 0; k-- {
			sa := base.clone()
			e.storeRaw(sa, alts[k].ptr, t, v)
			merged := result.clone()
			seen := map[string]bool{}
			var names []string
			for n := range sa.heap {
				if !seen[n] {
					seen[n] = true
					names = append(names, n)
				}
			}
			for n := range result.heap {
				if !seen[n] {
					seen[n] = true
					names = append(names, n)
				}
			}
			sortStrings(names)
			for _, n := range names {
				srt := e.vc.heapSort[n]
				a, b := e.heapGet(sa, n, srt), e.heapGet(result, n, srt)
				if a != b {
					merged.heap[n] = e.vc.define("H_"+n, srt, fmt.Sprintf("(ite %s %s %s)", alts[k].cond, a, b))
					e.vc.written[n] = true
				}
			}
			result = merged
		}
		for n, v := range result.heap {
			st.heap[n] = v
		}
		return
	}
	_, prefix := e.typeAtPath(p.Root, p.Path)
	lv := e.leaves(t)
	vals := e.flatten(t, v)
	idx, nidx := arrayIdxInPath(p.Path)
	if nidx > 1 {
		panic(engErr("nested array path unsupported"))
	}
	for i, l := range lv {
		if p.Kind == pkElem {
			if nidx == 1 {
				name, srt := e.backingMap(p.Root, Leaf{Suffix: prefix + l.Suffix, Sort: fmt.Sprintf("(Array %s %s)", e.ar.idxSort(), l.Sort)})
				h := e.heapGet(st, name, srt)
				inner := fmt.Sprintf("(select (select %s %s) %s)", h, p.Ref, p.Idx)
				e.heapSet(st, name, srt, fmt.Sprintf("(store %s %s (store (select %s %s) %s (store %s %s %s)))", h, p.Ref, h, p.Ref, p.Idx, inner, idx, vals[i]))
			} else {
				name, srt := e.backingMap(p.Root, Leaf{Suffix: prefix + l.Suffix, Sort: l.Sort})
				h := e.heapGet(st, name, srt)
				e.heapSet(st, name, srt, fmt.Sprintf("(store %s %s (store (select %s %s) %s %s))", h, p.Ref, h, p.Ref, p.Idx, vals[i]))
			}
			continue
		}
		ls := l.Sort
		if nidx == 1 {
			ls = fmt.Sprintf("(Array %s %s)", e.ar.idxSort(), l.Sort)
		}
		name, srt, _ := e.heapMapFor(p.Root, prefix+l.Suffix, ls)
		if _, isArr := p.Root.Underlying().(*types.Array); isArr && len(p.Path) == 0 {
			name, srt, _ = e.heapMapFor(p.Root, l.Suffix, l.Sort)
		}
		h := e.heapGet(st, name, srt)
		if nidx == 1 {
			e.heapSet(st, name, srt, fmt.Sprintf("(store %s %s (store (select %s %s) %s %s))", h, p.Ref, h, p.Ref, idx, vals[i]))
		} else {
			e.heapSet(st, name, srt, fmt.Sprintf("(store %s %s %s)", h, p.Ref, vals[i]))
		}
	}
}

// navGet / navSet: navigate a Go-side value by path
func (e *Engine) navGet(t types.Type, v SV, path []pathEl) SV {
	if len(path) == 0 {
		return v
	}
	p := path[0]
	switch u := t.Underlying().(type) {
	case *types.Struct:
		return e.navGet(u.Field(p.field).Type(), v.(*StructSV).F[p.field], path[1:])
	case *types.Array:
		a := v.(*ArraySV)
		lv := e.leaves(u.Elem())
		ts := make([]string, len(a.Leaves))
		for i := range a.Leaves {
			ts[i] = e.vc.define("ai", lv[i].Sort, fmt.Sprintf("(select %s %s)", a.Leaves[i], p.idx))
		}
		return e.navGet(u.Elem(), e.unflat(u.Elem(), ts), path[1:])
	}
	panic(engErr("navGet: bad path"))
}

func (e *Engine) navSet(t types.Type, v SV, path []pathEl, nv SV) SV {
	if len(path) == 0 {
		return nv
	}
	p := path[0]
	switch u := t.Underlying().(type) {
	case *types.Struct:
		s := v.(*StructSV)
		ns := &StructSV{F: append([]SV(nil), s.F...)}
		ns.F[p.field] = e.navSet(u.Field(p.field).Type(), s.F[p.field], path[1:], nv)
		return ns
	case *types.Array:
		a := v.(*ArraySV)
		old := e.navGet(t, v, path[:1])
		upd := e.navSet(u.Elem(), old, path[1:], nv)
		vals := e.flatten(u.Elem(), upd)
		lv := e.leaves(t)
		na := &ArraySV{Leaves: make([]string, len(a.Leaves))}
		for i := range a.Leaves {
			na.Leaves[i] = e.vc.define("as", lv[i].Sort, fmt.Sprintf("(store %s %s %s)", a.Leaves[i], p.idx, vals[i]))
		}
		return na
	}
	panic(engErr("navSet: bad path"))
}

func (e *Engine) fieldAddr(fr *Frame, st *State, v *ssa.FieldAddr) SV {
	base := e.val(fr, v.X)
	st0 := v.X.Type().Underlying().(*types.Pointer).Elem()
	switch p := base.(type) {
	case *PtrSV:
		if p.Kind == pkHeap && len(p.Path) == 0 {
			e.nilCheck(fr, st, p.Ref, "field address "+v.String())
		}
		np := *p
		np.Path = append(append([]pathEl(nil), p.Path...), pathEl{field: v.Field})
		if p.Kind == pkHeap && len(p.Path) == 0 {
			np.Root = st0
		}
		return &np
	case *Sc:
		e.nilCheck(fr, st, p.T, "field address "+v.String())
		hp := e.heapPtr(p.T, st0)
		hp.Path = []pathEl{{field: v.Field}}
		return hp
	}
	panic(engErr(fmt.Sprintf("fieldAddr on %T", base)))
}

func (e *Engine) boundsCheck(fr *Frame, st *State, idx, n string, what string) {
	goal := and(e.idxLe(e.idxc(0), idx), e.idxLt(idx, n))
	e.vc.oblige(e.oname(fr, "safety:index#"), st.pc, goal, "index in range: "+what)
}

func (e *Engine) indexAddr(fr *Frame, st *State, v *ssa.IndexAddr) SV {
	base := e.val(fr, v.X)
	idx := e.toIdx(fr, v.Index)
	switch xt := v.X.Type().Underlying().(type) {
	case *types.Slice:
		s := base.(*SliceSV)
		e.boundsCheck(fr, st, idx, s.Len, e.posStr(v.Pos())+" "+v.String())
		return &PtrSV{Kind: pkElem, Ref: s.Base, Idx: e.vc.define("ix", e.ar.idxSort(), e.idxAdd(s.Off, idx)), Root: xt.Elem()}
	case *types.Pointer:
		at := xt.Elem().Underlying().(*types.Array)
		e.boundsCheck(fr, st, idx, e.idxc(at.Len()), e.posStr(v.Pos())+" "+v.String())
		p, ok := base.(*PtrSV)
		if !ok {
			p = &PtrSV{Kind: pkHeap, Ref: base.(*Sc).T, Root: xt.Elem()}
		}
		if p.Kind == pkHeap && len(p.Path) == 0 {
			e.nilCheck(fr, st, p.Ref, "index of *array")
			return &PtrSV{Kind: pkElem, Ref: p.Ref, Idx: idx, Root: at.Elem()}
		}
		np := *p
		np.Path = append(append([]pathEl(nil), p.Path...), pathEl{field: -1, idx: idx})
		return &np
	}
	panic(engErr("indexAddr on " + v.X.Type().String()))
}

func (e *Engine) index(fr *Frame, st *State, v *ssa.Index) SV {
	base := e.val(fr, v.X)
	idx := e.toIdx(fr, v.Index)
	switch xt := v.X.Type().Underlying().(type) {
	case *types.Array:
		e.boundsCheck(fr, st, idx, e.idxc(xt.Len()), e.posStr(v.Pos()))
		return e.navGet(xt, base, []pathEl{{field: -1, idx: idx}})
	case *types.Basic: // string
		s := base.(*Sc).T
		e.boundsCheck(fr, st, idx, e.strLenIdx(s), e.posStr(v.Pos()))
		return &Sc{e.strAt(s, idx)}
	}
	panic(engErr("index on " + v.X.Type().String()))
}

// string helpers: strlen/strat are over Int; convert to the mode's sorts
func (e *Engine) strLenIdx(s string) string {
	if e.ar.mode == ModeBV {
		return fmt.Sprintf("((_ int2bv 64) (strlen %s))", s)
	}
	return fmt.Sprintf("(strlen %s)", s)
}

func (e *Engine) strAt(s, idx string) string {
	if e.ar.mode == ModeBV {
		return fmt.Sprintf("((_ int2bv 8) (strat %s (bv2nat %s)))", s, idx)
	}
	return fmt.Sprintf("(strat %s %s)", s, idx)
}

func (e *Engine) slice(fr *Frame, st *State, v *ssa.Slice) SV {
	base := e.val(fr, v.X)
	var lo, hi, max string
	if v.Low != nil {
		lo = e.toIdx(fr, v.Low)
	} else {
		lo = e.idxc(0)
	}
	pos := e.posStr(v.Pos())
	switch xt := v.X.Type().Underlying().(type) {
	case *types.Slice:
		s := base.(*SliceSV)
		if v.High != nil {
			hi = e.toIdx(fr, v.High)
		} else {
			hi = s.Len
		}
		capv := s.Cap
		if v.Max != nil {
			max = e.toIdx(fr, v.Max)
			e.vc.oblige(e.oname(fr, "safety:slice#"), st.pc, and(and(e.idxLe(e.idxc(0), lo), e.idxLe(lo, hi)), and(e.idxLe(hi, max), e.idxLe(max, s.Cap))), "3-index slice bounds: "+pos)
			capv = max
		} else {
			e.vc.oblige(e.oname(fr, "safety:slice#"), st.pc, and(and(e.idxLe(e.idxc(0), lo), e.idxLe(lo, hi)), e.idxLe(hi, s.Cap)), "slice bounds: "+pos+" "+v.String())
		}
		return &SliceSV{Base: s.Base, Off: e.vc.define("so", e.ar.idxSort(), e.idxAdd(s.Off, lo)), Len: e.vc.define("sl", e.ar.idxSort(), e.idxSub(hi, lo)), Cap: e.vc.define("sc", e.ar.idxSort(), e.idxSub(capv, lo))}
	case *types.Pointer:
		at := xt.Elem().Underlying().(*types.Array)
		n := e.idxc(at.Len())
		if v.High != nil {
			hi = e.toIdx(fr, v.High)
		} else {
			hi = n
		}
		p, ok := base.(*PtrSV)
		if !ok {
			p = &PtrSV{Kind: pkHeap, Ref: base.(*Sc).T, Root: xt.Elem()}
		}
		if p.Kind != pkHeap || len(p.Path) != 0 {
			panic(engErr("slicing an array that is not a heap object: " + pos))
		}
		e.nilCheck(fr, st, p.Ref, "slice of *array")
		e.vc.oblige(e.oname(fr, "safety:slice#"), st.pc, and(and(e.idxLe(e.idxc(0), lo), e.idxLe(lo, hi)), e.idxLe(hi, n)), "array slice bounds: "+pos)
		return &SliceSV{Base: p.Ref, Off: lo, Len: e.vc.define("sl", e.ar.idxSort(), e.idxSub(hi, lo)), Cap: e.vc.define("sc", e.ar.idxSort(), e.idxSub(n, lo))}
	case *types.Basic: // string
		s := base.(*Sc).T
		n := e.strLenIdx(s)
		if v.High != nil {
			hi = e.toIdx(fr, v.High)
		} else {
			hi = n
		}
		e.vc.oblige(e.oname(fr, "safety:slice#"), st.pc, and(and(e.idxLe(e.idxc(0), lo), e.idxLe(lo, hi)), e.idxLe(hi, n)), "string slice bounds: "+pos)
		return &Sc{e.substr(s, lo, hi)}
	}
	panic(engErr("slice on " + v.X.Type().String()))
}

func (e *Engine) idxToInt(t string) string {
	if e.ar.mode == ModeBV {
		return fmt.Sprintf("(bv2nat %s)", t)
	}
	return t
}

func (e *Engine) intToIdx(t string) string {
	if e.ar.mode == ModeBV {
		return fmt.Sprintf("((_ int2bv 64) %s)", t)
	}
	return t
}

func (e *Engine) substr(s, lo, hi string) string {
	vc := e.vc
	if !vc.declared["substr"] {
		vc.declareFun("substr", []string{"Int", "Int", "Int"}, "Int")
		vc.decls = append(vc.decls,
			"(assert (forall ((s Int) (a Int) (b Int)) (! (=> (and (<= 0 a) (<= a b)) (= (strlen (substr s a b)) (- b a))) :pattern ((substr s a b)))))",
			"(assert (forall ((s Int) (a Int) (b Int) (i Int)) (! (=> (and (<= 0 i) (< i (- b a))) (= (strat (substr s a b) i) (strat s (+ a i)))) :pattern ((strat (substr s a b) i)))))",
			"(assert (forall ((s Int)) (! (= (substr s 0 (strlen s)) s) :pattern ((substr s 0 (strlen s))))))",
		)
	}
	return vc.define("sub", "Int", fmt.Sprintf("(substr %s %s %s)", s, e.idxToInt(lo), e.idxToInt(hi)))
}

func (e *Engine) makeSlice(fr *Frame, st *State, v *ssa.MakeSlice) SV {
	n := e.toIdx(fr, v.Len)
	c := e.toIdx(fr, v.Cap)
	e.vc.oblige(e.oname(fr, "safety:makeslice#"), st.pc, and(e.idxLe(e.idxc(0), n), e.idxLe(n, c)), "make([]T, len, cap) with 0 <= len <= cap: "+e.posStr(v.Pos()))
	el := v.Type().Underlying().(*types.Slice).Elem()
	return e.newBacking(st, el, n, c)
}

func (e *Engine) newBacking(st *State, el types.Type, n, c string) *SliceSV {
	ref := e.allocRef(st, "mk")
	for _, l := range e.leaves(el) {
		name, srt := e.backingMap(el, l)
		h := e.heapGet(st, name, srt)
		arrSort := fmt.Sprintf("(Array %s %s)", e.ar.idxSort(), l.Sort)
		zero := fmt.Sprintf("((as const %s) %s)", arrSort, e.zeroOfLeaf(l))
		e.heapSet(st, name, srt, fmt.Sprintf("(store %s %s %s)", h, ref, zero))
	}
	return &SliceSV{Base: ref, Off: e.idxc(0), Len: n, Cap: c}
}

// ---- operators ---------------------------------------------------------------

func (e *Engine) execUnOp(fr *Frame, st *State, v *ssa.UnOp) SV {
	switch v.Op {
	case token.MUL:
		return e.load(fr, st, e.val(fr, v.X), v.Type(), e.posStr(v.Pos())+" "+v.String())
	case token.NOT:
		return &Sc{not(e.scalar(fr, v.X))}
	case token.SUB:
		if w, s, ok := intInfo(v.Type()); ok {
			return &Sc{e.vc.define(v.Name(), e.ar.intSort(w), e.ar.Neg(e.scalar(fr, v.X), w, s))}
		}
		return &Sc{e.vc.declare("fneg", "Float")}
	case token.XOR:
		w, s, _ := intInfo(v.Type())
		t, err := e.ar.Not(e.scalar(fr, v.X), w, s)
		if err != nil {
			panic(engErr(err.Error()))
		}
		return &Sc{e.vc.define(v.Name(), e.ar.intSort(w), t)}
	case token.ARROW:
		// channel receive: unconstrained
		if v.CommaOk {
			tt := v.Type().(*types.Tuple)
			return e.freshSV(tt, "recv", st.pc, st)
		}
		return e.freshSV(v.Type(), "recv", st.pc, st)
	}
	panic(engErr("unop " + v.Op.String()))
}

func (e *Engine) execBinOp(fr *Frame, st *State, v *ssa.BinOp) SV {
	xt := v.X.Type()
	name := v.Name()
	if w, s, ok := intInfo(xt); ok {
		x := e.scalar(fr, v.X)
		y := e.scalar(fr, v.Y)
		switch v.Op {
		case token.EQL, token.NEQ, token.LSS, token.LEQ, token.GTR, token.GEQ:
			return &Sc{e.vc.define(name, "Bool", e.ar.Cmp(v.Op, x, y, s))}
		case token.SHL, token.SHR:
			cw, cs, _ := intInfo(v.Y.Type())
			if cs {
				e.vc.oblige(e.oname(fr, "safety:shift#"), st.pc, e.ar.Cmp(token.GEQ, y, e.ar.ConstI(0, cw, true), true), "shift count is non-negative: "+e.posStr(v.Pos()))
			}
			t, err := e.ar.Shift(v.Op, x, y, w, s, cw, cs)
			if err != nil {
				panic(engErr(err.Error() + " at " + e.posStr(v.Pos())))
			}
			return &Sc{e.vc.define(name, e.ar.intSort(w), t)}
		case token.QUO, token.REM:
			e.vc.oblige(e.oname(fr, "safety:div#"), st.pc, not(fmt.Sprintf("(= %s %s)", y, e.ar.ConstI(0, w, s))), "division by zero: "+e.posStr(v.Pos())+" "+v.String())
		}
		t, err := e.ar.BinOp(v.Op, x, y, w, s)
		if err != nil {
			panic(engErr(err.Error() + " at " + e.posStr(v.Pos())))
		}
		if ovf := e.ar.ovf; ovf != "" {
			e.ar.ovf = ""
			e.vc.oblige(e.oname(fr, "safety:overflow#"), st.pc, ovf, "signed arithmetic stays in range: "+e.posStr(v.Pos())+" "+v.String())
			e.vc.assume(st.pc, ovf)
		}
		return &Sc{e.vc.define(name, e.ar.intSort(w), t)}
	}
	switch u := xt.Underlying().(type) {
	case *types.Basic:
		switch {
		case u.Info()&types.IsBoolean != 0:
			x, y := e.scalar(fr, v.X), e.scalar(fr, v.Y)
			switch v.Op {
			case token.EQL:
				return &Sc{fmt.Sprintf("(= %s %s)", x, y)}
			case token.NEQ:
				return &Sc{fmt.Sprintf("(not (= %s %s))", x, y)}
			case token.AND, token.LAND:
				return &Sc{and(x, y)}
			case token.OR, token.LOR:
				return &Sc{or(x, y)}
			}
		case u.Info()&types.IsString != 0:
			x, y := e.scalar(fr, v.X), e.scalar(fr, v.Y)
			switch v.Op {
			case token.EQL:
				return &Sc{e.strEq(x, y)}
			case token.NEQ:
				return &Sc{not(e.strEq(x, y))}
			case token.ADD:
				return &Sc{e.strConcat(x, y)}
			default:
				return &Sc{e.vc.declare("strcmp", "Bool")}
			}
		case u.Info()&types.IsFloat != 0:
			switch v.Op {
			case token.EQL, token.NEQ, token.LSS, token.LEQ, token.GTR, token.GEQ:
				return &Sc{e.vc.declare("fcmp", "Bool")}
			}
			return &Sc{e.vc.declare("fop", "Float")}
		case u.Kind() == types.UnsafePointer || u.Kind() == types.UntypedNil:
			x, y := e.scalar(fr, v.X), e.scalar(fr, v.Y)
			if v.Op == token.EQL {
				return &Sc{fmt.Sprintf("(= %s %s)", x, y)}
			}
			return &Sc{fmt.Sprintf("(not (= %s %s))", x, y)}
		}
	case *types.Pointer, *types.Map, *types.Chan, *types.Signature:
		// the address of a field or of a local is never nil
		interior := func(a, b ssa.Value) bool {
			if !isNilConst(b) {
				return false
			}
			p, ok := e.val(fr, a).(*PtrSV)
			return ok && (p.Kind == pkLocal || (p.Kind == pkHeap || p.Kind == pkGlobal) && len(p.Path) > 0)
		}
		if interior(v.X, v.Y) || interior(v.Y, v.X) {
			if v.Op == token.EQL {
				return &Sc{"false"}
			}
			return &Sc{"true"}
		}
		x, y := e.scalar(fr, v.X), e.scalar(fr, v.Y)
		if v.Op == token.EQL {
			return &Sc{fmt.Sprintf("(= %s %s)", x, y)}
		}
		return &Sc{fmt.Sprintf("(not (= %s %s))", x, y)}
	case *types.Slice:
		// comparison with nil only
		var s *SliceSV
		if sv, ok := e.val(fr, v.X).(*SliceSV); ok && isNilConst(v.Y) {
			s = sv
		} else if sv, ok := e.val(fr, v.Y).(*SliceSV); ok && isNilConst(v.X) {
			s = sv
		} else {
			panic(engErr("slice comparison"))
		}
		isnil := fmt.Sprintf("(= %s 0)", s.Base)
		if v.Op == token.EQL {
			return &Sc{isnil}
		}
		return &Sc{not(isnil)}
	case *types.Interface:
		x := e.val(fr, v.X).(*IfaceSV)
		y := e.val(fr, v.Y).(*IfaceSV)
		eq := and(fmt.Sprintf("(= %s %s)", x.Tag, y.Tag), fmt.Sprintf("(= %s %s)", x.Val, y.Val))
		if isNilConst(v.Y) {
			eq = fmt.Sprintf("(= %s 0)", x.Tag)
		} else if isNilConst(v.X) {
			eq = fmt.Sprintf("(= %s 0)", y.Tag)
		}
		if v.Op == token.EQL {
			return &Sc{eq}
		}
		return &Sc{not(eq)}
	case *types.Struct, *types.Array:
		la := e.flatten(xt, e.val(fr, v.X))
		lb := e.flatten(xt, e.val(fr, v.Y))
		eq := "true"
		for i := range la {
			eq = and(eq, fmt.Sprintf("(= %s %s)", la[i], lb[i]))
		}
		if v.Op == token.EQL {
			return &Sc{eq}
		}
		return &Sc{not(eq)}
	}
	panic(engErr(fmt.Sprintf("binop %s on %s", v.Op, xt)))
}

func isNilConst(v ssa.Value) bool {
	c, ok := v.(*ssa.Const)
	return ok && c.Value == nil
}

// string equality: ids are equal iff contents are equal (extensionality is
// asserted per comparison, in the direction needed for soundness of "=="):
func (e *Engine) strEq(x, y string) string {
	return fmt.Sprintf("(= %s %s)", x, y)
}

func (e *Engine) strConcat(x, y string) string {
	vc := e.vc
	if !vc.declared["strcat"] {
		vc.declareFun("strcat", []string{"Int", "Int"}, "Int")
		vc.decls = append(vc.decls,
			"(assert (forall ((a Int) (b Int)) (! (= (strlen (strcat a b)) (+ (strlen a) (strlen b))) :pattern ((strcat a b)))))",
			"(assert (forall ((a Int) (b Int) (i Int)) (! (= (strat (strcat a b) i) (ite (< i (strlen a)) (strat a i) (strat b (- i (strlen a))))) :pattern ((strat (strcat a b) i)))))",
		)
	}
	return vc.define("cat", "Int", fmt.Sprintf("(strcat %s %s)", x, y))
}

func (e *Engine) execConvert(fr *Frame, st *State, v *ssa.Convert) SV {
	ft, tt := v.X.Type(), v.Type()
	fw, fs, fok := intInfo(ft)
	tw, ts, tok := intInfo(tt)
	if fok && tok {
		return &Sc{e.vc.define(v.Name(), e.ar.intSort(tw), e.ar.Convert(e.scalar(fr, v.X), fw, fs, tw, ts))}
	}
	fb, _ := ft.Underlying().(*types.Basic)
	tb, _ := tt.Underlying().(*types.Basic)
	isFloat := func(b *types.Basic) bool { return b != nil && b.Info()&types.IsFloat != 0 }
	isStr := func(b *types.Basic) bool { return b != nil && b.Info()&types.IsString != 0 }
	switch {
	case isFloat(fb) && tok:
		// float -> int: unconstrained integer of the target type
		return e.freshSV(tt, "f2i", st.pc, st)
	case fok && isFloat(tb):
		// integer -> float: an uninterpreted function of the integer (the same integer converts
		// to the same float; nothing else is known)
		return &Sc{e.intToFloat(e.scalar(fr, v.X), fw)}
	case isFloat(fb) && isFloat(tb):
		return &Sc{e.vc.declare("f2f", "Float")}
	case isStr(tb):
		if sl, ok := ft.Underlying().(*types.Slice); ok {
			s := e.val(fr, v.X).(*SliceSV)
			return &Sc{e.bytesToString(st, sl.Elem(), s)}
		}
		if fok {
			return &Sc{e.vc.declare("runestr", "Int")}
		}
	case isStr(fb):
		if sl, ok := tt.Underlying().(*types.Slice); ok {
			return e.stringToBytes(st, sl.Elem(), e.scalar(fr, v.X))
		}
	case tb != nil && tb.Kind() == types.UnsafePointer, fb != nil && fb.Kind() == types.UnsafePointer:
		panic(engErr("unsafe.Pointer conversion"))
	}
	if _, ok := tt.Underlying().(*types.Pointer); ok {
		return e.val(fr, v.X)
	}
	panic(engErr(fmt.Sprintf("convert %s -> %s", ft, tt)))
}

func (e *Engine) byteArr(st *State, el types.Type, base string) string {
	l := e.leaves(el)[0]
	name, srt := e.backingMap(el, l)
	return fmt.Sprintf("(select %s %s)", e.heapGet(st, name, srt), base)
}

func (e *Engine) elemToInt(t string, el types.Type) string {
	if e.ar.mode == ModeBV {
		return fmt.Sprintf("(bv2nat %s)", t)
	}
	return t
}

func (e *Engine) bytesToString(st *State, el types.Type, s *SliceSV) string {
	vc := e.vc
	arr := vc.define("arr", fmt.Sprintf("(Array %s %s)", e.ar.idxSort(), e.leaves(el)[0].Sort), e.byteArr(st, el, s.Base))
	id := vc.declare("str", "Int")
	vc.assume("true", fmt.Sprintf("(= (strlen %s) %s)", id, e.idxToInt(s.Len)))
	q := vc.fresh("q")
	var sel string
	if e.ar.mode == ModeBV {
		sel = fmt.Sprintf("(bv2nat (select %s (bvadd %s ((_ int2bv 64) %s))))", arr, s.Off, q)
	} else {
		sel = fmt.Sprintf("(select %s (+ %s %s))", arr, s.Off, q)
	}
	vc.assume("true", fmt.Sprintf("(forall ((%s Int)) (! (=> (and (<= 0 %s) (< %s (strlen %s))) (= (strat %s %s) %s)) :pattern ((strat %s %s))))", q, q, q, id, id, q, sel, id, q))
	return id
}

func (e *Engine) stringToBytes(st *State, el types.Type, s string) SV {
	n := e.vc.define("n", e.ar.idxSort(), e.strLenIdx(s))
	sl := e.newBacking(st, el, n, n)
	l := e.leaves(el)[0]
	name, srt := e.backingMap(el, l)
	arrSort := fmt.Sprintf("(Array %s %s)", e.ar.idxSort(), l.Sort)
	arr := e.vc.declare("sbytes", arrSort)
	q := e.vc.fresh("q")
	e.vc.assume("true", fmt.Sprintf("(forall ((%s %s)) (! (=> (and %s %s) (= (select %s %s) %s)) :pattern ((select %s %s))))",
		q, e.ar.idxSort(), e.idxLe(e.idxc(0), q), e.idxLt(q, n), arr, q, e.strAt(s, q), arr, q))
	if e.ar.mode == ModeInt {
		e.vc.assume("true", fmt.Sprintf("(forall ((%s Int)) (! (and (<= 0 (select %s %s)) (<= (select %s %s) 255)) :pattern ((select %s %s))))", q, arr, q, arr, q, arr, q))
	}
	h := e.heapGet(st, name, srt)
	e.heapSet(st, name, srt, fmt.Sprintf("(store %s %s %s)", h, sl.Base, arr))
	// content abstraction: the bytes of []byte(s) are (the string) s
	if sf, ok := e.db.Specs["contentOf"]; ok {
		func() {
			defer func() { recover() }()
			env := &Env{vars: map[string]TV{}, e: e, cur: st}
			e.declareSpec(env, sf)
			e.vc.assume("true", fmt.Sprintf("(= (contentOf %s %s %s %s) %s)", sl.Base, sl.Off, sl.Len, sl.Cap, s))
		}()
	}
	return sl
}

// ---- interfaces ------------------------------------------------------------

func (e *Engine) makeInterface(fr *Frame, st *State, t types.Type, v SV) SV {
	tag := e.typeID(t)
	switch t.Underlying().(type) {
	case *types.Pointer, *types.Map, *types.Chan, *types.Signature:
		return &IfaceSV{Tag: tag, Val: e.flatten(t, v)[0]}
	case *types.Interface:
		return v
	}
	if b, ok := t.Underlying().(*types.Basic); ok && b.Info()&types.IsString != 0 {
		return &IfaceSV{Tag: tag, Val: v.(*Sc).T}
	}
	// box the value
	ref := e.allocRef(st, "box")
	e.storeRaw(st, &PtrSV{Kind: pkHeap, Ref: ref, Root: t}, t, v)
	return &IfaceSV{Tag: tag, Val: ref}
}

func (e *Engine) unbox(st *State, t types.Type, val string) SV {
	switch t.Underlying().(type) {
	case *types.Pointer, *types.Map, *types.Chan, *types.Signature:
		return e.unflat(t, []string{val})
	}
	if b, ok := t.Underlying().(*types.Basic); ok && b.Info()&types.IsString != 0 {
		return &Sc{val}
	}
	return e.loadRaw(st, &PtrSV{Kind: pkHeap, Ref: val, Root: t}, t)
}

func (e *Engine) typeAssert(fr *Frame, st *State, v *ssa.TypeAssert) SV {
	x := e.val(fr, v.X).(*IfaceSV)
	at := v.AssertedType
	var ok string
	var res SV
	if _, isIface := at.Underlying().(*types.Interface); isIface {
		// interface-to-interface: succeeds iff the dynamic type implements at
		ok = e.implementsTerm(x.Tag, at)
		res = x
	} else {
		ok = fmt.Sprintf("(= %s %s)", x.Tag, e.typeID(at))
		res = e.unbox(st, at, x.Val)
	}
	if v.CommaOk {
		// on failure the value is the zero value
		z := e.zero(at)
		merged := e.mergeSV(at, ok, res, z, "ta")
		return &TupleSV{E: []SV{merged, &Sc{ok}}}
	}
	e.vc.oblige(e.oname(fr, "safety:typeassert#"), st.pc, ok, "type assertion without comma-ok must hold: "+e.posStr(v.Pos())+" "+v.String())
	e.vc.assume(st.pc, ok)
	return res
}

func (e *Engine) implementsTerm(tag string, iface types.Type) string {
	// closed set of concrete types known to the run that implement iface
	it := iface.Underlying().(*types.Interface)
	if it.NumMethods() == 0 {
		return fmt.Sprintf("(not (= %s 0))", tag)
	}
	b := e.vc.declare("impl", "Bool")
	e.vc.assume("true", implies(fmt.Sprintf("(= %s 0)", tag), not(b)))
	return b
}

// ---- maps (finite maps with ghost cardinality) --------------------------------

func (e *Engine) mapSorts(mt *types.Map) (ksort string, present, card string) {
	kl := e.leaves(mt.Key())
	if len(kl) != 1 {
		panic(engErr("map with composite key type " + mt.Key().String()))
	}
	ksort = kl[0].Sort
	key := e.typeKey(mt.Key()) + "_" + e.typeKey(mt.Elem())
	return ksort, "MP_" + key, "MC_" + key
}

func (e *Engine) makeMap(fr *Frame, st *State, v *ssa.MakeMap) SV {
	mt := v.Type().Underlying().(*types.Map)
	ref := e.allocRef(st, "map")
	e.mapInitEmpty(st, mt, ref)
	return &Sc{ref}
}

func (e *Engine) mapInitEmpty(st *State, mt *types.Map, ref string) {
	ks, pn, cn := e.mapSorts(mt)
	psort := fmt.Sprintf("(Array Int (Array %s Bool))", ks)
	h := e.heapGet(st, pn, psort)
	e.heapSet(st, pn, psort, fmt.Sprintf("(store %s %s ((as const (Array %s Bool)) false))", h, ref, ks))
	hc := e.heapGet(st, cn, "(Array Int Int)")
	e.heapSet(st, cn, "(Array Int Int)", fmt.Sprintf("(store %s %s 0)", hc, ref))
}

func (e *Engine) mapValMap(mt *types.Map, l Leaf) (string, string) {
	ks, pn, _ := e.mapSorts(mt)
	return "MV_" + strings.TrimPrefix(pn, "MP_") + l.Suffix, fmt.Sprintf("(Array Int (Array %s %s))", ks, l.Sort)
}

func (e *Engine) mapUpdate(fr *Frame, st *State, v *ssa.MapUpdate) {
	mt := v.Map.Type().Underlying().(*types.Map)
	m := e.scalar(fr, v.Map)
	e.vc.oblige(e.oname(fr, "safety:nilmap#"), st.pc, not(fmt.Sprintf("(= %s 0)", m)), "assignment to entry in nil map: "+e.posStr(v.Pos()))
	k := e.flatten(mt.Key(), e.val(fr, v.Key))[0]
	e.mapStore(fr, st, mt, m, k, e.val(fr, v.Value))
}

func (e *Engine) mapStore(fr *Frame, st *State, mt *types.Map, m, k string, val SV) {
	ks, pn, cn := e.mapSorts(mt)
	psort := fmt.Sprintf("(Array Int (Array %s Bool))", ks)
	e.frameCheckMap(fr, st, m, pn)
	h := e.heapGet(st, pn, psort)
	was := fmt.Sprintf("(select (select %s %s) %s)", h, m, k)
	hc := e.heapGet(st, cn, "(Array Int Int)")
	e.heapSet(st, cn, "(Array Int Int)", fmt.Sprintf("(store %s %s (ite %s (select %s %s) (+ (select %s %s) 1)))", hc, m, was, hc, m, hc, m))
	e.heapSet(st, pn, psort, fmt.Sprintf("(store %s %s (store (select %s %s) %s true))", h, m, h, m, k))
	vals := e.flatten(mt.Elem(), val)
	for i, l := range e.leaves(mt.Elem()) {
		name, srt := e.mapValMap(mt, l)
		hv := e.heapGet(st, name, srt)
		e.heapSet(st, name, srt, fmt.Sprintf("(store %s %s (store (select %s %s) %s %s))", hv, m, hv, m, k, vals[i]))
	}
}

func (e *Engine) mapDelete(fr *Frame, st *State, mt *types.Map, m, k string) {
	ks, pn, cn := e.mapSorts(mt)
	psort := fmt.Sprintf("(Array Int (Array %s Bool))", ks)
	e.frameCheckMap(fr, st, m, pn)
	h := e.heapGet(st, pn, psort)
	was := fmt.Sprintf("(select (select %s %s) %s)", h, m, k)
	hc := e.heapGet(st, cn, "(Array Int Int)")
	e.heapSet(st, cn, "(Array Int Int)", fmt.Sprintf("(store %s %s (ite %s (- (select %s %s) 1) (select %s %s)))", hc, m, was, hc, m, hc, m))
	e.heapSet(st, pn, psort, fmt.Sprintf("(store %s %s (store (select %s %s) %s false))", h, m, h, m, k))
}

func (e *Engine) mapLen(st *State, mt *types.Map, m string) string {
	_, _, cn := e.mapSorts(mt)
	hc := e.heapGet(st, cn, "(Array Int Int)")
	t := e.vc.define("mlen", "Int", fmt.Sprintf("(ite (= %s 0) 0 (select %s %s))", m, hc, m))
	e.vc.assume("true", fmt.Sprintf("(>= %s 0)", t))
	// cardinality axiom: an empty map has no present key is not derivable without
	// quantifiers; it is provided on demand by mapPresent facts.
	return e.intToIdx(t)
}

func (e *Engine) lookup(fr *Frame, st *State, v *ssa.Lookup) SV {
	switch xt := v.X.Type().Underlying().(type) {
	case *types.Map:
		m := e.scalar(fr, v.X)
		k := e.flatten(xt.Key(), e.val(fr, v.Index))[0]
		ks, pn, cn := e.mapSorts(xt)
		psort := fmt.Sprintf("(Array Int (Array %s Bool))", ks)
		h := e.heapGet(st, pn, psort)
		present := e.vc.define("present", "Bool", and(not(fmt.Sprintf("(= %s 0)", m)), fmt.Sprintf("(select (select %s %s) %s)", h, m, k)))
		// cardinality link: a present key implies card >= 1
		hc := e.heapGet(st, cn, "(Array Int Int)")
		e.vc.assume("true", implies(present, fmt.Sprintf("(>= (select %s %s) 1)", hc, m)))
		lv := e.leaves(xt.Elem())
		vals := make([]string, len(lv))
		for i, l := range lv {
			name, srt := e.mapValMap(xt, l)
			hv := e.heapGet(st, name, srt)
			raw := e.vc.define("mv", l.Sort, fmt.Sprintf("(select (select %s %s) %s)", hv, m, k))
			e.assumeLoadedLeaf(l, raw, st)
			vals[i] = e.vc.define("mv", l.Sort, ite(present, raw, e.zeroOfLeaf(l)))
		}
		val := e.unflat(xt.Elem(), vals)
		if v.CommaOk {
			return &TupleSV{E: []SV{val, &Sc{present}}}
		}
		return val
	case *types.Basic:
		s := e.scalar(fr, v.X)
		idx := e.toIdx(fr, v.Index)
		e.boundsCheck(fr, st, idx, e.strLenIdx(s), e.posStr(v.Pos()))
		return &Sc{e.strAt(s, idx)}
	}
	panic(engErr("lookup on " + v.X.Type().String()))
}

func (e *Engine) selectInstr(fr *Frame, st *State, v *ssa.Select) SV {
	tt := v.Type().(*types.Tuple)
	res := e.freshSV(tt, "select", st.pc, st).(*TupleSV)
	idx := res.E[0].(*Sc).T
	lo := int64(0)
	if !v.Blocking {
		lo = -1
	}
	e.vc.assume("true", and(e.ar.Cmp(tokGEQ, idx, e.idxc(lo), true), e.ar.Cmp(tokLSS, idx, e.idxc(int64(len(v.States))), true)))
	return res
}

// RangeSV: the iterator of a range over a map. Iteration is over-approximated: every step
// may stop or yield any key currently present (order, count and coverage are not modelled).
type RangeSV struct {
	M string
	T *types.Map
}

func (e *Engine) intToFloat(x string, w int) string {
	name := "i2f"
	srt := e.ar.intSort(w)
	if e.ar.mode == ModeBV {
		name = fmt.Sprintf("i2f_bv%d", w)
	}
	e.vc.declareFun(name, []string{srt}, "Float")
	return fmt.Sprintf("(%s %s)", name, x)
}

func (e *Engine) rangeInit(fr *Frame, st *State, v *ssa.Range) SV {
	mt, ok := v.X.Type().Underlying().(*types.Map)
	if !ok {
		panic(engErr("range over a string is outside the subset: " + e.posStr(v.Pos())))
	}
	e.vc.usedExt["range over a map: each step yields an arbitrary present key or stops (order and coverage not modelled)"] = true
	return &RangeSV{M: e.scalar(fr, v.X), T: mt}
}

func (e *Engine) rangeNext(fr *Frame, st *State, v *ssa.Next) SV {
	it, ok := e.val(fr, v.Iter).(*RangeSV)
	if !ok || v.IsString {
		panic(engErr("range over a string is outside the subset"))
	}
	xt := it.T
	m := it.M
	okT := e.vc.declare("rngok", "Bool")
	key := e.freshSV(xt.Key(), "rngkey", st.pc, st)
	k := e.flatten(xt.Key(), key)[0]
	ks, pn, _ := e.mapSorts(xt)
	psort := fmt.Sprintf("(Array Int (Array %s Bool))", ks)
	h := e.heapGet(st, pn, psort)
	e.vc.assume("true", implies(okT, and(not(fmt.Sprintf("(= %s 0)", m)), fmt.Sprintf("(select (select %s %s) %s)", h, m, k))))
	lv := e.leaves(xt.Elem())
	vals := make([]string, len(lv))
	for i, l := range lv {
		name, srt := e.mapValMap(xt, l)
		hv := e.heapGet(st, name, srt)
		raw := e.vc.define("mv", l.Sort, fmt.Sprintf("(select (select %s %s) %s)", hv, m, k))
		e.assumeLoadedLeaf(l, raw, st)
		vals[i] = raw
	}
	val := e.unflat(xt.Elem(), vals)
	return &TupleSV{E: []SV{&Sc{okT}, key, val}}
}

// ---- defers ------------------------------------------------------------------

func (e *Engine) runDefers(fr *Frame, st *State, at *ssa.BasicBlock) {
	for i := len(fr.defers) - 1; i >= 0; i-- {
		d := fr.defers[i]
		// A deferred call is executed here only if its registration dominates
		// this point (registered on every path) and is not inside a loop.
		if d.inst.Block().Dominates(at) {
			e.callResolved(fr, st, d.call, d.fn, d.args, nil, d.inst.Pos())
			continue
		}
		if !blockReaches(d.inst.Block(), at) {
			continue // this return cannot come after the registration: the defer is not pending here
		}
		// registered on some of the paths that arrive here only (a defer inside a branch): not modelled
		panic(engErr("conditionally registered defer: " + e.posStr(d.inst.Pos())))
	}
}

// blockReaches: b can be reached from a along control-flow edges (a itself excluded unless on a cycle).
func blockReaches(a, b *ssa.BasicBlock) bool {
	seen := map[*ssa.BasicBlock]bool{}
	work := append([]*ssa.BasicBlock{}, a.Succs...)
	for len(work) > 0 {
		x := work[len(work)-1]
		work = work[:len(work)-1]
		if seen[x] {
			continue
		}
		seen[x] = true
		if x == b {
			return true
		}
		work = append(work, x.Succs...)
	}
	return false
}

// siteAsserts checks the contract's assert_at clauses before the first instruction
// (in execution order within a block) of each matching source line.
func (e *Engine) siteAsserts(fr *Frame, st *State, instr ssa.Instruction) {
	pos := instr.Pos()
	if !pos.IsValid() {
		return
	}
	p := e.prog.Fset.Position(pos)
	line := e.sourceLine(p.Filename, p.Line)
	if line == "" {
		return
	}
	for k, sa := range e.curContract.SiteAsserts {
		if !strings.Contains(line, sa.Text) {
			continue
		}
		key := fmt.Sprintf("%d|%s|%d|%p", k, p.Filename, p.Line, fr.curBlock)
		if fr.siteDone == nil {
			fr.siteDone = map[string]bool{}
		}
		if fr.siteDone[key] {
			continue
		}
		fr.siteDone[key] = true
		fr.siteHits++
		env := e.loopEnv(fr, st)
		if sa.Hint {
			e.applyHint(env, sa.Cl, st.pc)
			continue
		}
		if sa.Ghost {
			be, ok := sa.Cl.Expr.(*ast.BinaryExpr)
			if !ok {
				panic(fmt.Sprintf("contract error: ghost_at %q: need ghost(g) = expr", sa.Text))
			}
			call, ok := be.X.(*ast.CallExpr)
			if !ok || len(call.Args) != 1 {
				panic(fmt.Sprintf("contract error: ghost_at %q: need ghost(g) = expr", sa.Text))
			}
			g := call.Args[0].(*ast.Ident).Name
			tv := e.eval(env, be.Y)
			if tv.Konst != nil {
				st.ghost[g] = tv.Konst.String()
			} else {
				st.ghost[g] = e.vc.define("G_"+g, e.ghostSort(g), e.flatten(tv.T, tv.V)[0])
			}
			continue
		}
		t, err := e.tryEvalBool(env, sa.Cl.Expr)
		if err != nil {
			panic(fmt.Sprintf("contract error: assert_at %q: %v", sa.Text, err))
		}
		ob := e.vc.oblige(fmt.Sprintf("assert_at:%d#", k+1), st.pc, t, fmt.Sprintf("before %q: %s", sa.Text, sa.Cl.Text))
		ob.Props = sa.Cl.Props
	}
}

func (e *Engine) sourceLine(file string, line int) string {
	if e.srcCache == nil {
		e.srcCache = map[string][]string{}
	}
	lines, ok := e.srcCache[file]
	if !ok {
		if b, err := os.ReadFile(file); err == nil {
			lines = strings.Split(string(b), "\n")
		}
		e.srcCache[file] = lines
	}
	if line-1 < 0 || line-1 >= len(lines) {
		return ""
	}
	return lines[line-1]
}
