package main

// Intrinsics: library functions that the engine models directly. Each one is
// part of the trusted base and is recorded when used.

import (
	"fmt"
	"go/token"
	"go/types"

	"golang.org/x/tools/go/ssa"
)

type intrinsic func(e *Engine, fr *Frame, st *State, fn *ssa.Function, args []SV, resT types.Type, pos token.Pos) SV

var intrinsics map[string]intrinsic
var intrinsicPrefixes map[string]intrinsic
var invokeIntrinsics map[string]intrinsic

const logPkg = "github.com/enfein/mieru/v3/pkg/log."

func init() {
	noop := func(e *Engine, fr *Frame, st *State, fn *ssa.Function, args []SV, resT types.Type, pos token.Pos) SV {
		if fn != nil {
			e.vc.usedExt["intrinsic "+funcKey(fn)+": no effect on modelled state"] = true
		}
		if resT == nil {
			return nil
		}
		return e.freshSV(resT, "x", st.pc, st)
	}
	freshErr := func(e *Engine, fr *Frame, st *State, fn *ssa.Function, args []SV, resT types.Type, pos token.Pos) SV {
		e.vc.usedExt["intrinsic "+funcKey(fn)+": returns a fresh non-nil error"] = true
		ref := e.allocRef(st, "err")
		return &IfaceSV{Tag: e.typeID(types.NewPointer(types.Typ[types.Invalid])) /* opaque error type */, Val: ref}
	}
	freshStr := func(e *Engine, fr *Frame, st *State, fn *ssa.Function, args []SV, resT types.Type, pos token.Pos) SV {
		e.vc.usedExt["intrinsic "+funcKey(fn)+": returns an unconstrained string"] = true
		return &Sc{e.vc.declare("str", "Int")}
	}
	intrinsics = map[string]intrinsic{
		"sync.Mutex.Lock":      noop,
		"sync.Mutex.Unlock":    noop,
		"sync.Mutex.TryLock":   noop,
		"sync.RWMutex.Lock":    noop,
		"sync.RWMutex.Unlock":  noop,
		"sync.RWMutex.RLock":   noop,
		"sync.RWMutex.RUnlock": noop,
		"sync.WaitGroup.Add":   noop,
		"sync.WaitGroup.Done":  noop,
		"sync.WaitGroup.Wait":  noop,
		"fmt.Errorf":           freshErr,
		"errors.New":           freshErr,
		"fmt.Sprintf":          freshStr,
		"fmt.Sprint":           freshStr,
		"fmt.Sprintln":         freshStr,
		"time.Sleep":           noop,
		"runtime.Gosched":      noop,
		"math/bits.OnesCount32": func(e *Engine, fr *Frame, st *State, fn *ssa.Function, args []SV, resT types.Type, pos token.Pos) SV {
			if e.ar.mode != ModeBV {
				panic(engErr("bits.OnesCount32 needs the bv encoding"))
			}
			return &Sc{e.vc.define("popc", e.ar.idxSort(), e.popcount(args[0].(*Sc).T, 32))}
		},
		"math/bits.OnesCount64": func(e *Engine, fr *Frame, st *State, fn *ssa.Function, args []SV, resT types.Type, pos token.Pos) SV {
			if e.ar.mode != ModeBV {
				panic(engErr("bits.OnesCount64 needs the bv encoding"))
			}
			return &Sc{e.vc.define("popc", e.ar.idxSort(), e.popcount(args[0].(*Sc).T, 64))}
		},
	}
	intrinsicPrefixes = map[string]intrinsic{
		logPkg: noop,
	}
	invokeIntrinsics = map[string]intrinsic{
		"error.Error": func(e *Engine, fr *Frame, st *State, fn *ssa.Function, args []SV, resT types.Type, pos token.Pos) SV {
			iv := args[0].(*IfaceSV)
			e.vc.oblige(e.oname(fr, "safety:nil#"), st.pc, not(fmt.Sprintf("(= %s 0)", iv.Tag)), "Error() on nil error: "+e.posStr(pos))
			return &Sc{e.vc.declare("errstr", "Int")}
		},
	}
}
