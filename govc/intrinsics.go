package main

// Intrinsics: library functions that the engine models directly. Each one is
// part of the trusted base and is recorded when used.

import (
	"fmt"
	"go/token"
	"go/types"
	"strings"

	"golang.org/x/tools/go/ssa"
)

type intrinsic func(e *Engine, fr *Frame, st *State, fn *ssa.Function, args []SV, resT types.Type, pos token.Pos) SV

var intrinsics map[string]intrinsic
var intrinsicPrefixes map[string]intrinsic
var invokeIntrinsics map[string]intrinsic

const logPkg = "github.com/enfein/mieru/v3/pkg/log."

func init() {
	noop := func(e *Engine, fr *Frame, st *State, fn *ssa.Function, args []SV, resT types.Type, pos token.Pos) SV {
		if fn != nil {
			e.vc.usedExt["intrinsic "+funcKey(fn)+": no effect on modelled state"] = true
		}
		if resT == nil {
			return nil
		}
		return e.freshSV(resT, "x", st.pc, st)
	}
	freshErr := func(e *Engine, fr *Frame, st *State, fn *ssa.Function, args []SV, resT types.Type, pos token.Pos) SV {
		e.vc.usedExt["intrinsic "+funcKey(fn)+": returns a fresh non-nil error"] = true
		ref := e.allocRef(st, "err")
		return &IfaceSV{Tag: e.typeID(types.NewPointer(types.Typ[types.Invalid])) /* opaque error type */, Val: ref}
	}
	freshStr := func(e *Engine, fr *Frame, st *State, fn *ssa.Function, args []SV, resT types.Type, pos token.Pos) SV {
		e.vc.usedExt["intrinsic "+funcKey(fn)+": returns an unconstrained string"] = true
		return &Sc{e.vc.declare("str", "Int")}
	}
	// Lock state as ghost bookkeeping: where a ghost held_<Type>_<field> is declared, it holds
	// the reference of the object whose <field> mutex the executing function has locked (0: none).
	// It says nothing about other goroutines; it lets contracts state "this happens under the lock".
	lockOp := func(set bool) intrinsic {
		return func(e *Engine, fr *Frame, st *State, fn *ssa.Function, args []SV, resT types.Type, pos token.Pos) SV {
			if len(args) > 0 {
				if p, ok := args[0].(*PtrSV); ok && p.Kind == pkHeap && len(p.Path) == 1 && p.Path[0].field >= 0 {
					if g := heldGhostName(p.Root, p.Path[0].field); g != "" {
						if _, declared := e.ghostSorts[g]; declared {
							if set {
								st.ghost[g] = p.Ref
							} else {
								st.ghost[g] = "0"
							}
						}
					}
				}
			}
			return noop(e, fr, st, fn, args, resT, pos)
		}
	}
	intrinsics = map[string]intrinsic{
		"sync.Mutex.Lock":      lockOp(true),
		"sync.Mutex.Unlock":    lockOp(false),
		"sync.Mutex.TryLock":   noop,
		"sync.RWMutex.Lock":    lockOp(true),
		"sync.RWMutex.Unlock":  lockOp(false),
		"sync.RWMutex.RLock":   noop,
		"sync.RWMutex.RUnlock": noop,
		"sync.WaitGroup.Add":   noop,
		"sync.WaitGroup.Done":  noop,
		"sync.WaitGroup.Wait":  noop,
		"fmt.Errorf":           freshErr,
		"errors.New":           freshErr,
		"fmt.Sprintf":          freshStr,
		"fmt.Sprint":           freshStr,
		"fmt.Sprintln":         freshStr,
		"time.Sleep":           noop,
		"runtime.Gosched":      noop,
		"math/bits.OnesCount32": func(e *Engine, fr *Frame, st *State, fn *ssa.Function, args []SV, resT types.Type, pos token.Pos) SV {
			return &Sc{e.vc.define("popc", e.ar.idxSort(), e.popcount(args[0].(*Sc).T, 32))}
		},
		"math/bits.OnesCount64": func(e *Engine, fr *Frame, st *State, fn *ssa.Function, args []SV, resT types.Type, pos token.Pos) SV {
			return &Sc{e.vc.define("popc", e.ar.idxSort(), e.popcount(args[0].(*Sc).T, 64))}
		},
	}
	// ---- time: time.Time is modelled as mathematical unix nanoseconds ----------
	i64 := types.Typ[types.Int64]
	toI64 := func(e *Engine, m string) SV { // math Int -> int64 value in the current mode
		if e.ar.mode == ModeBV {
			return &Sc{e.vc.define("t64", "(_ BitVec 64)", fmt.Sprintf("((_ int2bv 64) %s)", m))}
		}
		return &Sc{e.vc.define("t64", "Int", e.ar.wrap(m, 64, true))}
	}
	fromI64 := func(e *Engine, v SV) string { return e.ar.ToMathInt(v.(*Sc).T, 64, true) }
	timeNote := func(e *Engine) {
		e.vc.usedExt["time.Time modelled as mathematical unix nanoseconds; time.Now() returns non-decreasing instants in [0, 2^62) ns"] = true
	}
	floorDiv := func(m string, d int64) string { return fmt.Sprintf("(div %s %d)", m, d) }
	mkUnixLike := func(d int64) intrinsic {
		return func(e *Engine, fr *Frame, st *State, fn *ssa.Function, args []SV, resT types.Type, pos token.Pos) SV {
			timeNote(e)
			return toI64(e, floorDiv(args[0].(*Sc).T, d))
		}
	}
	intrinsics["time.Now"] = func(e *Engine, fr *Frame, st *State, fn *ssa.Function, args []SV, resT types.Type, pos token.Pos) SV {
		timeNote(e)
		n := e.vc.declare("now", "Int")
		prev, ok := st.ghost["now"]
		if !ok {
			prev = "0"
		}
		e.vc.assume("true", fmt.Sprintf("(and (<= %s %s) (< %s 4611686018427387904))", prev, n, n))
		st.ghost["now"] = n
		return &Sc{n}
	}
	intrinsics["time.Time.Unix"] = mkUnixLike(1000000000)
	intrinsics["time.Time.UnixMilli"] = mkUnixLike(1000000)
	intrinsics["time.Time.UnixMicro"] = mkUnixLike(1000)
	intrinsics["time.Time.UnixNano"] = mkUnixLike(1)
	intrinsics["time.Time.Sub"] = func(e *Engine, fr *Frame, st *State, fn *ssa.Function, args []SV, resT types.Type, pos token.Pos) SV {
		timeNote(e)
		// Go saturates; inside int64 range the difference is exact
		d := fmt.Sprintf("(- %s %s)", args[0].(*Sc).T, args[1].(*Sc).T)
		sat := fmt.Sprintf("(ite (> %s 9223372036854775807) 9223372036854775807 (ite (< %s (- 9223372036854775808)) (- 9223372036854775808) %s))", d, d, d)
		return toI64(e, sat)
	}
	intrinsics["time.Since"] = func(e *Engine, fr *Frame, st *State, fn *ssa.Function, args []SV, resT types.Type, pos token.Pos) SV {
		now := intrinsics["time.Now"](e, fr, st, fn, nil, nil, pos).(*Sc).T
		d := fmt.Sprintf("(- %s %s)", now, args[0].(*Sc).T)
		sat := fmt.Sprintf("(ite (> %s 9223372036854775807) 9223372036854775807 (ite (< %s (- 9223372036854775808)) (- 9223372036854775808) %s))", d, d, d)
		return toI64(e, sat)
	}
	intrinsics["time.Until"] = func(e *Engine, fr *Frame, st *State, fn *ssa.Function, args []SV, resT types.Type, pos token.Pos) SV {
		now := intrinsics["time.Now"](e, fr, st, fn, nil, nil, pos).(*Sc).T
		d := fmt.Sprintf("(- %s %s)", args[0].(*Sc).T, now)
		sat := fmt.Sprintf("(ite (> %s 9223372036854775807) 9223372036854775807 (ite (< %s (- 9223372036854775808)) (- 9223372036854775808) %s))", d, d, d)
		return toI64(e, sat)
	}
	intrinsics["time.Time.Add"] = func(e *Engine, fr *Frame, st *State, fn *ssa.Function, args []SV, resT types.Type, pos token.Pos) SV {
		timeNote(e)
		return &Sc{e.vc.define("tadd", "Int", fmt.Sprintf("(+ %s %s)", args[0].(*Sc).T, fromI64(e, args[1])))}
	}
	cmpT := func(op string) intrinsic {
		return func(e *Engine, fr *Frame, st *State, fn *ssa.Function, args []SV, resT types.Type, pos token.Pos) SV {
			timeNote(e)
			return &Sc{fmt.Sprintf("(%s %s %s)", op, args[0].(*Sc).T, args[1].(*Sc).T)}
		}
	}
	intrinsics["time.Time.After"] = cmpT(">")
	intrinsics["time.Time.Before"] = cmpT("<")
	intrinsics["time.Time.Equal"] = cmpT("=")
	intrinsics["time.Time.Compare"] = func(e *Engine, fr *Frame, st *State, fn *ssa.Function, args []SV, resT types.Type, pos token.Pos) SV {
		a, b := args[0].(*Sc).T, args[1].(*Sc).T
		return &Sc{ite(fmt.Sprintf("(< %s %s)", a, b), e.ar.ConstI(-1, 64, true), ite(fmt.Sprintf("(> %s %s)", a, b), e.ar.ConstI(1, 64, true), e.ar.ConstI(0, 64, true)))}
	}
	intrinsics["time.Time.IsZero"] = func(e *Engine, fr *Frame, st *State, fn *ssa.Function, args []SV, resT types.Type, pos token.Pos) SV {
		timeNote(e)
		return &Sc{fmt.Sprintf("(= %s %s)", args[0].(*Sc).T, zeroTimeNs)}
	}
	roundLike := func(round bool) intrinsic {
		return func(e *Engine, fr *Frame, st *State, fn *ssa.Function, args []SV, resT types.Type, pos token.Pos) SV {
			timeNote(e)
			t := args[0].(*Sc).T
			d := fromI64(e, args[1])
			// multiples of d counted from the zero time (year 1), as package time documents
			abs := fmt.Sprintf("(- %s %s)", t, zeroTimeNs)
			r := e.vc.define("trem", "Int", fmt.Sprintf("(mod %s %s)", abs, d))
			var res string
			if round {
				res = fmt.Sprintf("(ite (< (+ %s %s) %s) (- %s %s) (+ %s (- %s %s)))", r, r, d, t, r, t, d, r)
			} else {
				res = fmt.Sprintf("(- %s %s)", t, r)
			}
			return &Sc{e.vc.define("tround", "Int", fmt.Sprintf("(ite (<= %s 0) %s %s)", d, t, res))}
		}
	}
	intrinsics["time.Time.Round"] = roundLike(true)
	intrinsics["time.Time.Truncate"] = roundLike(false)
	intrinsics["time.Unix"] = func(e *Engine, fr *Frame, st *State, fn *ssa.Function, args []SV, resT types.Type, pos token.Pos) SV {
		timeNote(e)
		return &Sc{e.vc.define("tunix", "Int", fmt.Sprintf("(+ (* %s 1000000000) %s)", fromI64(e, args[0]), fromI64(e, args[1])))}
	}
	intrinsics["time.UnixMilli"] = func(e *Engine, fr *Frame, st *State, fn *ssa.Function, args []SV, resT types.Type, pos token.Pos) SV {
		timeNote(e)
		return &Sc{e.vc.define("tunix", "Int", fmt.Sprintf("(* %s 1000000)", fromI64(e, args[0])))}
	}
	intrinsics["time.UnixMicro"] = func(e *Engine, fr *Frame, st *State, fn *ssa.Function, args []SV, resT types.Type, pos token.Pos) SV {
		timeNote(e)
		return &Sc{e.vc.define("tunix", "Int", fmt.Sprintf("(* %s 1000)", fromI64(e, args[0])))}
	}
	durDiv := func(d int64) intrinsic {
		return func(e *Engine, fr *Frame, st *State, fn *ssa.Function, args []SV, resT types.Type, pos token.Pos) SV {
			w, s, _ := intInfo(i64)
			t, err := e.ar.BinOp(token.QUO, args[0].(*Sc).T, e.ar.ConstI(d, 64, true), w, s)
			if err != nil {
				panic(engErr(err.Error()))
			}
			return &Sc{e.vc.define("dur", e.ar.intSort(64), t)}
		}
	}
	intrinsics["time.Duration.Milliseconds"] = durDiv(1000000)
	intrinsics["time.Duration.Microseconds"] = durDiv(1000)
	intrinsics["time.Duration.Nanoseconds"] = durDiv(1)
	intrinsics["time.Time.Format"] = freshStr
	intrinsics["time.Time.String"] = freshStr
	intrinsics["time.Duration.String"] = freshStr
	// ---- sync/atomic typed values: sequential semantics on the value field --------
	// (shared fields that other goroutines may write are declared `volatile` in the
	// contract of the function under verification and then read as arbitrary values)
	atomicField := func(e *Engine, st *State, recv SV, pos token.Pos) (*PtrSV, types.Type) {
		p, ok := recv.(*PtrSV)
		if !ok {
			if sc, ok2 := recv.(*Sc); ok2 {
				panic(engErr("atomic method on opaque pointer " + sc.T))
			}
			panic(engErr("atomic method on non-pointer"))
		}
		_, _ = p, pos
		tt, _ := e.typeAtPath(p.Root, p.Path)
		stt, ok := tt.Underlying().(*types.Struct)
		if !ok {
			panic(engErr("atomic receiver is not a struct: " + tt.String()))
		}
		for i := 0; i < stt.NumFields(); i++ {
			if stt.Field(i).Name() == "v" {
				np := *p
				np.Path = append(append([]pathEl(nil), p.Path...), pathEl{field: i})
				return &np, stt.Field(i).Type()
			}
		}
		panic(engErr("atomic type without value field: " + tt.String()))
	}
	atomicNote := func(e *Engine) {
		e.vc.usedExt["sync/atomic typed values read and written with sequential semantics (fields declared volatile are read as arbitrary values)"] = true
	}
	atomicLoad := func(e *Engine, fr *Frame, st *State, fn *ssa.Function, args []SV, resT types.Type, pos token.Pos) SV {
		atomicNote(e)
		fp, ft := atomicField(e, st, args[0], pos)
		if e.isVolatile(fp) {
			return e.freshSV(resT, "vol", st.pc, st)
		}
		v := e.load(fr, st, fp, ft, "atomic load")
		return e.atomicConv(v, ft, resT)
	}
	atomicStore := func(e *Engine, fr *Frame, st *State, fn *ssa.Function, args []SV, resT types.Type, pos token.Pos) SV {
		atomicNote(e)
		fp, ft := atomicField(e, st, args[0], pos)
		e.store(fr, st, fp, ft, e.atomicConvBack(args[1], ft, isBoolRecv(fn)), "atomic store")
		return nil
	}
	atomicAdd := func(e *Engine, fr *Frame, st *State, fn *ssa.Function, args []SV, resT types.Type, pos token.Pos) SV {
		atomicNote(e)
		fp, ft := atomicField(e, st, args[0], pos)
		var cur SV
		if e.isVolatile(fp) {
			cur = e.freshSV(ft, "vol", st.pc, st)
		} else {
			cur = e.load(fr, st, fp, ft, "atomic add")
		}
		w, sg, _ := intInfo(ft)
		saved := e.ar.wrapSigned
		e.ar.wrapSigned = true // atomic adds wrap
		t, err := e.ar.BinOp(token.ADD, cur.(*Sc).T, args[1].(*Sc).T, w, sg)
		e.ar.wrapSigned = saved
		if err != nil {
			panic(engErr(err.Error()))
		}
		nv := &Sc{e.vc.define("aadd", e.ar.intSort(w), t)}
		e.store(fr, st, fp, ft, nv, "atomic add")
		return nv
	}
	atomicSwap := func(e *Engine, fr *Frame, st *State, fn *ssa.Function, args []SV, resT types.Type, pos token.Pos) SV {
		atomicNote(e)
		fp, ft := atomicField(e, st, args[0], pos)
		var cur SV
		if e.isVolatile(fp) {
			cur = e.freshSV(ft, "vol", st.pc, st)
		} else {
			cur = e.load(fr, st, fp, ft, "atomic swap")
		}
		e.store(fr, st, fp, ft, e.atomicConvBack(args[1], ft, isBoolRecv(fn)), "atomic swap")
		return e.atomicConv(cur, ft, resT)
	}
	atomicCAS := func(e *Engine, fr *Frame, st *State, fn *ssa.Function, args []SV, resT types.Type, pos token.Pos) SV {
		atomicNote(e)
		fp, ft := atomicField(e, st, args[0], pos)
		var cur SV
		if e.isVolatile(fp) {
			cur = e.freshSV(ft, "vol", st.pc, st)
		} else {
			cur = e.load(fr, st, fp, ft, "atomic cas")
		}
		old := e.atomicConvBack(args[1], ft, isBoolRecv(fn))
		nw := e.atomicConvBack(args[2], ft, isBoolRecv(fn))
		lc := e.flatten(ft, cur)
		lo := e.flatten(ft, old)
		eq := "true"
		for i := range lc {
			eq = and(eq, fmt.Sprintf("(= %s %s)", lc[i], lo[i]))
		}
		eq = e.vc.define("cas", "Bool", eq)
		e.store(fr, st, fp, ft, e.mergeSV(ft, eq, nw, cur, "casv"), "atomic cas")
		return &Sc{eq}
	}
	for _, tn := range []string{"Int32", "Int64", "Uint32", "Uint64", "Bool", "Uintptr"} {
		intrinsics["sync/atomic."+tn+".Load"] = atomicLoad
		intrinsics["sync/atomic."+tn+".Store"] = atomicStore
		intrinsics["sync/atomic."+tn+".Swap"] = atomicSwap
		intrinsics["sync/atomic."+tn+".CompareAndSwap"] = atomicCAS
		if tn != "Bool" {
			intrinsics["sync/atomic."+tn+".Add"] = atomicAdd
		}
	}
	intrinsics["sync/atomic.Pointer.Load"] = func(e *Engine, fr *Frame, st *State, fn *ssa.Function, args []SV, resT types.Type, pos token.Pos) SV {
		atomicNote(e)
		fp, ft := atomicField(e, st, args[0], pos)
		if e.isVolatile(fp) {
			// another goroutine may have published a new value: arbitrary result.
			// Ghost: lastload is the value read, recheck records that a read
			// happened since the last event that cleared it.
			r := e.freshSV(resT, "vol", st.pc, st)
			st.ghost["lastload"] = e.flatten(resT, r)[0]
			st.ghost["recheck"] = "1"
			if c := e.curContract; c != nil && fr.top {
				for _, inv := range c.VolatileInv {
					env := e.loopEnv(fr, st).with("v", TV{V: r, T: resT})
					e.vc.assume(st.pc, e.evalBool(env, inv.Expr))
					e.vc.usedExt["assumed of every value read from a volatile pointer: "+inv.Text] = true
				}
			}
			return r
		}
		v := e.load(fr, st, fp, ft, "atomic pointer load") // unsafe.Pointer ref
		return e.unflat(resT, e.flatten(ft, v))
	}
	intrinsics["sync/atomic.Pointer.Store"] = func(e *Engine, fr *Frame, st *State, fn *ssa.Function, args []SV, resT types.Type, pos token.Pos) SV {
		atomicNote(e)
		fp, ft := atomicField(e, st, args[0], pos)
		e.store(fr, st, fp, ft, &Sc{e.ptrTerm(args[1])}, "atomic pointer store")
		return nil
	}
	intrinsics["sync/atomic.Pointer.Swap"] = func(e *Engine, fr *Frame, st *State, fn *ssa.Function, args []SV, resT types.Type, pos token.Pos) SV {
		atomicNote(e)
		fp, ft := atomicField(e, st, args[0], pos)
		var old SV
		if e.isVolatile(fp) {
			old = e.freshSV(resT, "vol", st.pc, st)
		} else {
			v := e.load(fr, st, fp, ft, "atomic pointer swap")
			old = e.unflat(resT, e.flatten(ft, v))
		}
		e.store(fr, st, fp, ft, &Sc{e.ptrTerm(args[1])}, "atomic pointer swap")
		return old
	}
	// Iteration with a callback (segmentTree.Ascend, sync.Map.Range): the callback
	// runs an unknown number of times on unknown elements. Sound abstraction: every
	// location the callback can write is havocked (fields of its parameters: whole
	// field maps; captured variables: their cells).
	iterate := func(argIdx int) intrinsic {
		return func(e *Engine, fr *Frame, st *State, fn *ssa.Function, args []SV, resT types.Type, pos token.Pos) SV {
			e.vc.usedExt["iteration "+funcKey(fn)+": callback effects over-approximated by havoc of everything it may write"] = true
			fv, ok := args[argIdx].(*FuncSV)
			if !ok || fv.Fn == nil {
				panic(engErr("iteration callback is not a known closure at " + e.posStr(pos)))
			}
			e.havocClosureEffects(fr, st, fv, map[*ssa.Function]bool{}, 0)
			return nil
		}
	}
	intrinsics["github.com/enfein/mieru/v3/pkg/protocol.segmentTree.Ascend"] = iterate(1)
	intrinsics["sync.Map.Range"] = iterate(1)
	// sync.Map as an opaque concurrent table: lookups return arbitrary (previously
	// existing) values, updates have no effect on modelled state.
	syncMapOpaque := func(e *Engine, fr *Frame, st *State, fn *ssa.Function, args []SV, resT types.Type, pos token.Pos) SV {
		e.vc.usedExt["sync.Map contents are not modelled: Load/LoadOrStore/LoadAndDelete return arbitrary values, Store/Delete have no modelled effect"] = true
		if resT == nil {
			return nil
		}
		return e.freshSV(resT, "syncmap", st.pc, st)
	}
	for _, m := range []string{"Load", "Store", "Delete", "LoadOrStore", "LoadAndDelete", "Swap", "CompareAndSwap", "CompareAndDelete", "Clear"} {
		intrinsics["sync.Map."+m] = syncMapOpaque
	}
	intrinsicPrefixes = map[string]intrinsic{
		logPkg: noop,
	}
	invokeIntrinsics = map[string]intrinsic{
		"error.Error": func(e *Engine, fr *Frame, st *State, fn *ssa.Function, args []SV, resT types.Type, pos token.Pos) SV {
			iv := args[0].(*IfaceSV)
			e.vc.oblige(e.oname(fr, "safety:nil#"), st.pc, not(fmt.Sprintf("(= %s 0)", iv.Tag)), "Error() on nil error: "+e.posStr(pos))
			return &Sc{e.vc.declare("errstr", "Int")}
		},
	}
}

func isBoolRecv(fn *ssa.Function) bool {
	return fn != nil && strings.HasPrefix(funcKey(fn), "sync/atomic.Bool.")
}

// heldGhostName: the name of the lock-state ghost for field i of struct type t.
func heldGhostName(t types.Type, i int) string {
	n, ok := types.Unalias(t).(*types.Named)
	if !ok {
		return ""
	}
	stt, ok := n.Underlying().(*types.Struct)
	if !ok || i >= stt.NumFields() {
		return ""
	}
	return "held_" + n.Obj().Name() + "_" + stt.Field(i).Name()
}
