package main

// Translation of contract expressions (Go expression syntax plus old(),
// forall(), implies(), spec functions) into SMT terms, with the same exact
// integer semantics as code.

import (
	"fmt"
	"go/ast"
	"go/constant"
	"go/token"
	"go/types"
	"golang.org/x/tools/go/ssa"
	"math/big"
	"regexp"
	"sort"
	"strconv"
	"strings"
)

type TV struct {
	V     SV
	T     types.Type
	Konst *big.Int // untyped integer constant (V == nil)
}

type Env struct {
	vars    map[string]TV
	cur     *State
	old     *State
	pkg     *types.Package
	e       *Engine
	fr      *Frame // optional: named locals of the function
	atLoop  bool
	witness []string // index-sorted candidate witnesses for exists()
	bound   map[string]bool
}

func (env *Env) with(name string, tv TV) *Env {
	n := *env
	n.vars = make(map[string]TV, len(env.vars)+1)
	for k, v := range env.vars {
		n.vars[k] = v
	}
	n.vars[name] = tv
	n.bound = make(map[string]bool, len(env.bound)+1)
	for k := range env.bound {
		n.bound[k] = true
	}
	n.bound[name] = true
	return &n
}

func (env *Env) inOld() *Env {
	n := *env
	if env.old != nil {
		n.cur = env.old
	}
	// in old(), parameters keep their entry values (vars map already holds entry values)
	n.fr = nil
	return &n
}

var boolT = types.Typ[types.Bool]
var intT = types.Typ[types.Int]

type specErr string

func (s specErr) Error() string { return string(s) }

func sfail(format string, args ...interface{}) {
	panic(specErr(fmt.Sprintf(format, args...)))
}

// evalBool evaluates a clause to a Bool term.
func (e *Engine) evalBool(env *Env, x ast.Expr) string {
	tv := e.eval(env, x)
	if tv.V == nil {
		sfail("clause is not boolean")
	}
	s, ok := tv.V.(*Sc)
	if !ok {
		sfail("clause is not boolean: %T", tv.V)
	}
	return s.T
}

func (e *Engine) materialize(tv TV, t types.Type) TV {
	if tv.Konst == nil {
		return tv
	}
	if t == nil {
		t = intT
	}
	w, s, ok := intInfo(t)
	if !ok {
		if b, isB := t.Underlying().(*types.Basic); isB && b.Info()&types.IsFloat != 0 {
			return TV{V: &Sc{e.floatConst(tv.Konst.String())}, T: t}
		}
		sfail("constant %s used at non-integer type %s", tv.Konst, t)
	}
	return TV{V: &Sc{e.ar.Const(tv.Konst, w, s)}, T: t}
}

func (e *Engine) eval(env *Env, x ast.Expr) TV {
	switch v := x.(type) {
	case *ast.ParenExpr:
		return e.eval(env, v.X)
	case *ast.BasicLit:
		switch v.Kind {
		case token.INT:
			b, ok := new(big.Int).SetString(strings.ReplaceAll(v.Value, "_", ""), 0)
			if !ok {
				sfail("bad int literal %s", v.Value)
			}
			return TV{Konst: b}
		case token.CHAR:
			r, _, _, err := strconv.UnquoteChar(v.Value[1:len(v.Value)-1], '\'')
			if err != nil {
				sfail("bad char literal")
			}
			return TV{Konst: big.NewInt(int64(r))}
		case token.STRING:
			s, err := strconv.Unquote(v.Value)
			if err != nil {
				sfail("bad string literal")
			}
			return TV{V: &Sc{e.strConstID(s)}, T: types.Typ[types.String]}
		}
		sfail("unsupported literal %s", v.Value)
	case *ast.Ident:
		return e.evalIdent(env, v)
	case *ast.UnaryExpr:
		return e.evalUnary(env, v)
	case *ast.BinaryExpr:
		return e.evalBinary(env, v)
	case *ast.CallExpr:
		return e.evalCall(env, v)
	case *ast.SelectorExpr:
		return e.evalSelector(env, v)
	case *ast.IndexExpr:
		return e.evalIndex(env, v)
	case *ast.StarExpr:
		p := e.eval(env, v.X)
		pt, ok := p.T.Underlying().(*types.Pointer)
		if !ok {
			sfail("* of non-pointer")
		}
		return TV{V: e.load(nil, env.cur, p.V, pt.Elem(), "spec"), T: pt.Elem()}
	case *ast.SliceExpr:
		return e.evalSliceExpr(env, v)
	}
	sfail("unsupported spec expression %T", x)
	return TV{}
}

func (e *Engine) evalIdent(env *Env, id *ast.Ident) TV {
	switch id.Name {
	case "true":
		return TV{V: &Sc{"true"}, T: boolT}
	case "false":
		return TV{V: &Sc{"false"}, T: boolT}
	case "nil":
		return TV{V: nil, T: types.Typ[types.UntypedNil]}
	}
	// inside a loop invariant a name denotes the current value of the local of
	// that name (NaiveForm copies parameters into named cells); entry values are
	// written old(name). Bound variables shadow locals.
	if tv, ok := env.vars[id.Name]; ok && (env.fr == nil || env.bound[id.Name]) {
		return tv
	}
	if env.fr != nil {
		if tv, ok := e.localByName(env, id.Name); ok {
			return tv
		}
	}
	if tv, ok := env.vars[id.Name]; ok {
		return tv
	}
	// spec constant
	if txt, ok := e.db.Consts[id.Name]; ok {
		cl, err := parseClause(txt, "const "+id.Name)
		if err != nil {
			sfail("%v", err)
		}
		return e.eval(env, cl.Expr)
	}
	// package-level constant
	if env.pkg != nil {
		if obj := env.pkg.Scope().Lookup(id.Name); obj != nil {
			return e.objValue(env, obj)
		}
	}
	if obj := types.Universe.Lookup(id.Name); obj != nil {
		if c, ok := obj.(*types.Const); ok {
			return e.constValue(c)
		}
	}
	sfail("unknown identifier %s", id.Name)
	return TV{}
}

func (e *Engine) constValue(c *types.Const) TV {
	if b, ok := constToBig(c.Val()); ok && c.Val().Kind() == constant.Int {
		if bt, isB := c.Type().Underlying().(*types.Basic); isB && bt.Info()&types.IsUntyped != 0 {
			return TV{Konst: b}
		}
		return e.materialize(TV{Konst: b}, c.Type())
	}
	switch c.Val().Kind() {
	case constant.Bool:
		if constant.BoolVal(c.Val()) {
			return TV{V: &Sc{"true"}, T: boolT}
		}
		return TV{V: &Sc{"false"}, T: boolT}
	case constant.String:
		return TV{V: &Sc{e.strConstID(constant.StringVal(c.Val()))}, T: c.Type()}
	}
	sfail("unsupported constant %s", c.Name())
	return TV{}
}

func (e *Engine) objValue(env *Env, obj types.Object) TV {
	switch o := obj.(type) {
	case *types.Const:
		return e.constValue(o)
	case *types.Var:
		// package-level variable: read through the global object
		for _, p := range e.prog.AllPackages() {
			if p.Pkg == o.Pkg() {
				if g, ok := p.Members[o.Name()].(interface{ Type() types.Type }); ok {
					_ = g
				}
				if m := p.Var(o.Name()); m != nil {
					ptr := &PtrSV{Kind: pkGlobal, Glob: m, Root: o.Type()}
					return TV{V: e.load(nil, env.cur, ptr, o.Type(), "spec"), T: o.Type()}
				}
			}
		}
	}
	sfail("identifier %s is not a constant or variable", obj.Name())
	return TV{}
}

func (e *Engine) localByName(env *Env, name string) (TV, bool) {
	fr := env.fr
	// a variable captured by the function literal under verification
	for _, fv := range fr.fn.FreeVars {
		if fv.Name() != name {
			continue
		}
		pv, ok := fr.regs[fv]
		pt, isPtr := fv.Type().(*types.Pointer)
		if !ok || !isPtr {
			break
		}
		return TV{V: e.load(nil, env.cur, pv, pt.Elem(), "spec"), T: pt.Elem()}, true
	}
	want := name
	ord := 0
	if i := strings.Index(name, "__"); i > 0 {
		want = name[:i]
		ord, _ = strconv.Atoi(name[i+2:])
	}
	k := 0
	for _, b := range fr.fn.Blocks {
		for _, in := range b.Instrs {
			a, ok := in.(interface {
				Name() string
			})
			_ = a
			al, isAlloc := in.(*ssaAlloc)
			if !ok || !isAlloc {
				continue
			}
			if al.Comment != want {
				continue
			}
			k++
			if ord != 0 && k != ord {
				continue
			}
			t := al.Type().(*types.Pointer).Elem()
			if al.Heap {
				pv, ok := fr.regs[al]
				if !ok {
					continue
				}
				return TV{V: e.load(nil, env.cur, pv, t, "spec"), T: t}, true
			}
			cell := fr.cellOf[al]
			if cell == nil {
				continue
			}
			v, ok := env.cur.cells[cell]
			if !ok {
				continue
			}
			return TV{V: v, T: t}, true
		}
	}
	return TV{}, false
}

func (e *Engine) evalUnary(env *Env, v *ast.UnaryExpr) TV {
	x := e.eval(env, v.X)
	switch v.Op {
	case token.NOT:
		return TV{V: &Sc{not(x.V.(*Sc).T)}, T: boolT}
	case token.SUB:
		if x.Konst != nil {
			return TV{Konst: new(big.Int).Neg(x.Konst)}
		}
		w, s, ok := intInfo(x.T)
		if !ok {
			sfail("unary - on non-integer")
		}
		return TV{V: &Sc{e.ar.Neg(x.V.(*Sc).T, w, s)}, T: x.T}
	case token.XOR:
		if x.Konst != nil {
			return TV{Konst: new(big.Int).Not(x.Konst)}
		}
		w, s, _ := intInfo(x.T)
		t, err := e.ar.Not(x.V.(*Sc).T, w, s)
		if err != nil {
			sfail("%v", err)
		}
		return TV{V: &Sc{t}, T: x.T}
	case token.AND:
		// address-of: &x.f — only to pass pointers to spec functions; unsupported
	}
	sfail("unsupported unary %s", v.Op)
	return TV{}
}

func constBinop(op token.Token, a, b *big.Int) (*big.Int, bool) {
	r := new(big.Int)
	switch op {
	case token.ADD:
		return r.Add(a, b), true
	case token.SUB:
		return r.Sub(a, b), true
	case token.MUL:
		return r.Mul(a, b), true
	case token.QUO:
		if b.Sign() == 0 {
			return nil, false
		}
		return r.Quo(a, b), true
	case token.REM:
		if b.Sign() == 0 {
			return nil, false
		}
		return r.Rem(a, b), true
	case token.SHL:
		return r.Lsh(a, uint(b.Int64())), true
	case token.SHR:
		return r.Rsh(a, uint(b.Int64())), true
	case token.AND:
		return r.And(a, b), true
	case token.OR:
		return r.Or(a, b), true
	case token.XOR:
		return r.Xor(a, b), true
	case token.AND_NOT:
		return r.AndNot(a, b), true
	}
	return nil, false
}

func (e *Engine) evalBinary(env *Env, v *ast.BinaryExpr) TV {
	switch v.Op {
	case token.LAND, token.LOR:
		a := e.evalBool(env, v.X)
		b := e.evalBool(env, v.Y)
		if v.Op == token.LAND {
			return TV{V: &Sc{and(a, b)}, T: boolT}
		}
		return TV{V: &Sc{or(a, b)}, T: boolT}
	}
	x := e.eval(env, v.X)
	y := e.eval(env, v.Y)
	isCmp := v.Op == token.EQL || v.Op == token.NEQ || v.Op == token.LSS || v.Op == token.LEQ || v.Op == token.GTR || v.Op == token.GEQ
	if v.Op == token.ADD && x.T != nil && y.T != nil && x.Konst == nil && y.Konst == nil {
		// string concatenation (the same function symbol the executor uses)
		if xb, ok := x.T.Underlying().(*types.Basic); ok && xb.Info()&types.IsString != 0 {
			if yb, ok := y.T.Underlying().(*types.Basic); ok && yb.Info()&types.IsString != 0 {
				xs, ok1 := x.V.(*Sc)
				ys, ok2 := y.V.(*Sc)
				if ok1 && ok2 {
					return TV{V: &Sc{e.strConcat(xs.T, ys.T)}, T: x.T}
				}
			}
		}
	}
	if x.Konst != nil && y.Konst != nil {
		if isCmp {
			c := x.Konst.Cmp(y.Konst)
			var r bool
			switch v.Op {
			case token.EQL:
				r = c == 0
			case token.NEQ:
				r = c != 0
			case token.LSS:
				r = c < 0
			case token.LEQ:
				r = c <= 0
			case token.GTR:
				r = c > 0
			case token.GEQ:
				r = c >= 0
			}
			if r {
				return TV{V: &Sc{"true"}, T: boolT}
			}
			return TV{V: &Sc{"false"}, T: boolT}
		}
		if r, ok := constBinop(v.Op, x.Konst, y.Konst); ok {
			return TV{Konst: r}
		}
		sfail("bad constant operation")
	}
	// shifts: count type is independent
	if v.Op == token.SHL || v.Op == token.SHR {
		if x.Konst != nil {
			x = e.materialize(x, intT)
		}
		w, s, ok := intInfo(x.T)
		if !ok {
			sfail("shift of non-integer")
		}
		var cnt string
		cw, cs := 64, false
		if y.Konst != nil {
			cnt = e.ar.Const(y.Konst, 64, false)
		} else {
			cw, cs, _ = intInfo(y.T)
			cnt = y.V.(*Sc).T
		}
		t, err := e.ar.Shift(v.Op, x.V.(*Sc).T, cnt, w, s, cw, cs)
		if err != nil {
			sfail("%v", err)
		}
		return TV{V: &Sc{t}, T: x.T}
	}
	// nil comparisons
	if isUntypedNil(x) || isUntypedNil(y) {
		other := x
		if isUntypedNil(x) {
			other = y
		}
		var isnil string
		switch ov := other.V.(type) {
		case *SliceSV:
			isnil = fmt.Sprintf("(= %s 0)", ov.Base)
		case *IfaceSV:
			isnil = fmt.Sprintf("(= %s 0)", ov.Tag)
		case *PtrSV:
			switch {
			case ov.Kind == pkHeap:
				isnil = fmt.Sprintf("(= %s 0)", ov.Ref) // an interior pointer is nil iff its root is
			case ov.Kind == pkGlobal:
				isnil = "false"
			default:
				isnil = "false" // address of a local or of an element
			}
		case *Sc:
			isnil = fmt.Sprintf("(= %s 0)", ov.T)
		case *FuncSV:
			isnil = fmt.Sprintf("(= %s 0)", e.flatten(other.T, ov)[0])
		default:
			sfail("nil comparison on %T", other.V)
		}
		if v.Op == token.EQL {
			return TV{V: &Sc{isnil}, T: boolT}
		}
		return TV{V: &Sc{not(isnil)}, T: boolT}
	}
	if (x.T != nil && isMathInt(x.T)) || (y.T != nil && isMathInt(y.T)) {
		return e.mathBinary(v.Op, x, y)
	}
	// unify types
	if x.Konst != nil {
		x = e.materialize(x, y.T)
	}
	if y.Konst != nil {
		y = e.materialize(y, x.T)
	}
	if w, s, ok := intInfo(x.T); ok {
		if _, _, ok2 := intInfo(y.T); !ok2 {
			sfail("mismatched operand types %s and %s", x.T, y.T)
		}
		w2, s2, _ := intInfo(y.T)
		if w != w2 || s != s2 {
			sfail("mismatched integer types %s and %s in %s", x.T, y.T, exprString(v))
		}
		xs, ys := x.V.(*Sc).T, y.V.(*Sc).T
		if isCmp {
			return TV{V: &Sc{e.ar.Cmp(v.Op, xs, ys, s)}, T: boolT}
		}
		t, err := e.ar.BinOp(v.Op, xs, ys, w, s)
		if err != nil {
			sfail("%v in %s", err, exprString(v))
		}
		return TV{V: &Sc{t}, T: x.T}
	}
	// booleans / strings / refs / structural equality
	if v.Op == token.EQL || v.Op == token.NEQ {
		la := e.flatten(x.T, x.V)
		lb := e.flatten(y.T, y.V)
		if len(la) != len(lb) {
			sfail("== on different shapes")
		}
		eq := "true"
		for i := range la {
			eq = and(eq, fmt.Sprintf("(= %s %s)", la[i], lb[i]))
		}
		if _, isIface := x.T.Underlying().(*types.Interface); isIface {
			// nothing special
		}
		if v.Op == token.EQL {
			return TV{V: &Sc{eq}, T: boolT}
		}
		return TV{V: &Sc{not(eq)}, T: boolT}
	}
	sfail("unsupported binary %s on %s", v.Op, x.T)
	return TV{}
}

func isUntypedNil(tv TV) bool {
	if tv.Konst != nil || tv.V != nil {
		return false
	}
	b, ok := tv.T.(*types.Basic)
	return ok && b.Kind() == types.UntypedNil
}

func exprString(x ast.Expr) string {
	return types.ExprString(x)
}

// resolveType resolves a type expression appearing in a contract.
func (e *Engine) resolveType(env *Env, x ast.Expr) types.Type {
	switch v := x.(type) {
	case *ast.Ident:
		if v.Name == "mathint" {
			return mathIntT
		}
		if obj := types.Universe.Lookup(v.Name); obj != nil {
			if tn, ok := obj.(*types.TypeName); ok {
				return tn.Type()
			}
		}
		if env.pkg != nil {
			if obj := env.pkg.Scope().Lookup(v.Name); obj != nil {
				if tn, ok := obj.(*types.TypeName); ok {
					return tn.Type()
				}
			}
		}
	case *ast.SelectorExpr:
		if id, ok := v.X.(*ast.Ident); ok {
			if obj, _ := e.lookupQualified(env, id.Name, v.Sel.Name); obj != nil {
				if tn, ok := obj.(*types.TypeName); ok {
					return tn.Type()
				}
			}
		}
	case *ast.StarExpr:
		if t := e.resolveType(env, v.X); t != nil {
			return types.NewPointer(t)
		}
	case *ast.ArrayType:
		if t := e.resolveType(env, v.Elt); t != nil {
			if v.Len == nil {
				return types.NewSlice(t)
			}
			if bl, ok := v.Len.(*ast.BasicLit); ok {
				n, _ := strconv.Atoi(bl.Value)
				return types.NewArray(t, int64(n))
			}
		}
	case *ast.ParenExpr:
		return e.resolveType(env, v.X)
	}
	return nil
}

// lookupQualified finds pkgName.member among the packages of that name
// (several imported packages may share a name, e.g. pkg/common and apis/common).
func (e *Engine) lookupQualified(env *Env, pkgName, member string) (types.Object, bool) {
	seenPkg := false
	try := func(p *types.Package) types.Object {
		if p.Name() != pkgName {
			return nil
		}
		seenPkg = true
		return p.Scope().Lookup(member)
	}
	if env.pkg != nil {
		for _, imp := range env.pkg.Imports() {
			if o := try(imp); o != nil {
				return o, true
			}
		}
		if o := try(env.pkg); o != nil {
			return o, true
		}
	}
	for _, p := range e.prog.AllPackages() {
		if strings.HasPrefix(p.Pkg.Path(), modPath) {
			if o := try(p.Pkg); o != nil {
				return o, true
			}
		}
	}
	for _, p := range e.prog.AllPackages() {
		if o := try(p.Pkg); o != nil {
			return o, true
		}
	}
	return nil, seenPkg
}

func (e *Engine) findImported(env *Env, name string) *types.Package {
	if env.pkg != nil {
		for _, imp := range env.pkg.Imports() {
			if imp.Name() == name {
				return imp
			}
		}
		if env.pkg.Name() == name {
			return env.pkg
		}
	}
	// any loaded package with that name (repository packages first)
	var found *types.Package
	for _, p := range e.prog.AllPackages() {
		if p.Pkg.Name() == name {
			if strings.HasPrefix(p.Pkg.Path(), modPath) {
				return p.Pkg
			}
			if found == nil {
				found = p.Pkg
			}
		}
	}
	return found
}

func (e *Engine) evalSelector(env *Env, v *ast.SelectorExpr) TV {
	if id, ok := v.X.(*ast.Ident); ok {
		if _, bound := env.vars[id.Name]; !bound || env.fr != nil && !env.bound[id.Name] {
			isLocal := bound
			if env.fr != nil {
				_, isLocal = e.localByName(env, id.Name)
			}
			if !isLocal {
				obj, isPkg := e.lookupQualified(env, id.Name, v.Sel.Name)
				if obj != nil {
					return e.objValue(env, obj)
				}
				if isPkg {
					sfail("unknown %s.%s", id.Name, v.Sel.Name)
				}
			}
		}
	}
	x := e.eval(env, v.X)
	return e.selectField(env, x, v.Sel.Name)
}

func (e *Engine) selectField(env *Env, x TV, name string) TV {
	var pkg *types.Package
	if env.pkg != nil {
		pkg = env.pkg
	}
	// find the field path
	t := x.T
	obj, index, _ := types.LookupFieldOrMethod(t, true, pkg, name)
	if obj == nil {
		// unexported field of another package: look it up with that package
		if n := namedOf(t); n != nil && n.Obj().Pkg() != nil {
			obj, index, _ = types.LookupFieldOrMethod(t, true, n.Obj().Pkg(), name)
		}
	}
	fv, ok := obj.(*types.Var)
	if !ok || fv == nil {
		sfail("no field %s in %s", name, t)
	}
	cur := x
	for _, fi := range index {
		cur = e.stepField(env, cur, fi)
	}
	return cur
}

func namedOf(t types.Type) *types.Named {
	if p, ok := t.Underlying().(*types.Pointer); ok {
		t = p.Elem()
	}
	if p, ok := t.(*types.Pointer); ok {
		t = p.Elem()
	}
	n, _ := t.(*types.Named)
	return n
}

func (e *Engine) stepField(env *Env, x TV, fi int) TV {
	if pt, ok := x.T.Underlying().(*types.Pointer); ok {
		st := pt.Elem().Underlying().(*types.Struct)
		var p *PtrSV
		switch pv := x.V.(type) {
		case *PtrSV:
			np := *pv
			np.Path = append(append([]pathEl(nil), pv.Path...), pathEl{field: fi})
			if pv.Kind == pkHeap && len(pv.Path) == 0 {
				np.Root = pt.Elem()
			}
			p = &np
		case *Sc:
			p = e.heapPtr(pv.T, pt.Elem())
			p.Path = []pathEl{{field: fi}}
		default:
			sfail("field of %T", x.V)
		}
		ft := st.Field(fi).Type()
		return TV{V: e.load(nil, env.cur, p, ft, "spec"), T: ft}
	}
	st, ok := x.T.Underlying().(*types.Struct)
	if !ok {
		sfail("field selection on %s", x.T)
	}
	return TV{V: x.V.(*StructSV).F[fi], T: st.Field(fi).Type()}
}

func (e *Engine) toIdxTV(tv TV) string {
	if tv.Konst != nil {
		return e.ar.Const(tv.Konst, 64, true)
	}
	w, s, ok := intInfo(tv.T)
	if !ok {
		sfail("index is not an integer")
	}
	return e.ar.Convert(tv.V.(*Sc).T, w, s, 64, true)
}

func (e *Engine) evalIndex(env *Env, v *ast.IndexExpr) TV {
	x := e.eval(env, v.X)
	i := e.eval(env, v.Index)
	if x.T == byteStreamT || x.T == u32StreamT {
		if e.ar.mode != ModeInt {
			sfail("ghost streams need the int encoding")
		}
		idx := e.toMath(i).V.(*Sc).T
		et := types.Typ[types.Uint8]
		if x.T == u32StreamT {
			et = types.Typ[types.Uint32]
		}
		return TV{V: &Sc{fmt.Sprintf("(select %s %s)", x.V.(*Sc).T, idx)}, T: et}
	}
	switch xt := x.T.Underlying().(type) {
	case *types.Slice:
		s := x.V.(*SliceSV)
		idx := e.toIdxTV(i)
		p := &PtrSV{Kind: pkElem, Ref: s.Base, Idx: e.idxAdd(s.Off, idx), Root: xt.Elem()}
		return TV{V: e.load(nil, env.cur, p, xt.Elem(), "spec"), T: xt.Elem()}
	case *types.Array:
		idx := e.toIdxTV(i)
		return TV{V: e.navGet(xt, x.V, []pathEl{{field: -1, idx: idx}}), T: xt.Elem()}
	case *types.Pointer:
		if at, ok := xt.Elem().Underlying().(*types.Array); ok {
			idx := e.toIdxTV(i)
			ref := e.flatten(x.T, x.V)[0]
			p := &PtrSV{Kind: pkElem, Ref: ref, Idx: idx, Root: at.Elem()}
			return TV{V: e.load(nil, env.cur, p, at.Elem(), "spec"), T: at.Elem()}
		}
	case *types.Basic:
		if xt.Info()&types.IsString != 0 {
			idx := e.toIdxTV(i)
			return TV{V: &Sc{e.strAt(x.V.(*Sc).T, idx)}, T: types.Typ[types.Uint8]}
		}
	case *types.Map:
		k := e.materialize(i, xt.Key())
		kt := e.flatten(xt.Key(), k.V)[0]
		m := x.V.(*Sc).T
		lv := e.leaves(xt.Elem())
		vals := make([]string, len(lv))
		present := e.mapPresent(env.cur, xt, m, kt)
		for j, l := range lv {
			name, srt := e.mapValMap(xt, l)
			hv := e.heapGet(env.cur, name, srt)
			vals[j] = ite(present, fmt.Sprintf("(select (select %s %s) %s)", hv, m, kt), e.zeroOfLeaf(l))
		}
		return TV{V: e.unflat(xt.Elem(), vals), T: xt.Elem()}
	}
	sfail("index on %s", x.T)
	return TV{}
}

func (e *Engine) mapPresent(st *State, mt *types.Map, m, k string) string {
	ks, pn, _ := e.mapSorts(mt)
	psort := fmt.Sprintf("(Array Int (Array %s Bool))", ks)
	h := e.heapGet(st, pn, psort)
	return and(not(fmt.Sprintf("(= %s 0)", m)), fmt.Sprintf("(select (select %s %s) %s)", h, m, k))
}

func (e *Engine) evalSliceExpr(env *Env, v *ast.SliceExpr) TV {
	x := e.eval(env, v.X)
	s, ok := x.V.(*SliceSV)
	if !ok {
		sfail("slice expression on %s", x.T)
	}
	lo := e.idxc(0)
	hi := s.Len
	if v.Low != nil {
		lo = e.toIdxTV(e.eval(env, v.Low))
	}
	if v.High != nil {
		hi = e.toIdxTV(e.eval(env, v.High))
	}
	return TV{V: &SliceSV{Base: s.Base, Off: e.idxAdd(s.Off, lo), Len: e.idxSub(hi, lo), Cap: e.idxSub(s.Cap, lo)}, T: x.T}
}

func (e *Engine) boundVar(name string, t types.Type) (string, string) {
	lv := e.leaves(t)
	if len(lv) != 1 {
		sfail("quantified variable of composite type")
	}
	q := e.vc.fresh("q_" + name)
	return q, lv[0].Sort
}

func (e *Engine) evalCall(env *Env, c *ast.CallExpr) TV {
	fname := ""
	switch f := c.Fun.(type) {
	case *ast.Ident:
		fname = f.Name
	case *ast.SelectorExpr:
		// conversion to a qualified type, or qualified spec function
		if t := e.resolveType(env, f); t != nil && len(c.Args) == 1 {
			return e.convertTV(e.eval(env, c.Args[0]), t)
		}
		sfail("unsupported call %s", exprString(c.Fun))
	case *ast.ParenExpr, *ast.StarExpr, *ast.ArrayType:
		if t := e.resolveType(env, c.Fun); t != nil && len(c.Args) == 1 {
			return e.convertTV(e.eval(env, c.Args[0]), t)
		}
	}
	switch fname {
	case "old":
		return e.eval(env.inOld(), c.Args[0])
	case "implies":
		return TV{V: &Sc{implies(e.evalBool(env, c.Args[0]), e.evalBool(env, c.Args[1]))}, T: boolT}
	case "iff":
		return TV{V: &Sc{fmt.Sprintf("(= %s %s)", e.evalBool(env, c.Args[0]), e.evalBool(env, c.Args[1]))}, T: boolT}
	case "ite":
		cnd := e.evalBool(env, c.Args[0])
		a := e.eval(env, c.Args[1])
		b := e.eval(env, c.Args[2])
		if a.Konst != nil && b.Konst != nil {
			a = e.materialize(a, intT)
		}
		if a.Konst != nil {
			a = e.materialize(a, b.T)
		}
		if b.Konst != nil {
			b = e.materialize(b, a.T)
		}
		la, lb := e.flatten(a.T, a.V), e.flatten(b.T, b.V)
		out := make([]string, len(la))
		for i := range la {
			out[i] = ite(cnd, la[i], lb[i])
		}
		return TV{V: e.unflat(a.T, out), T: a.T}
	case "len", "cap":
		x := e.eval(env, c.Args[0])
		switch xt := x.T.Underlying().(type) {
		case *types.Slice:
			s := x.V.(*SliceSV)
			if fname == "cap" {
				return TV{V: &Sc{s.Cap}, T: intT}
			}
			return TV{V: &Sc{s.Len}, T: intT}
		case *types.Array:
			return TV{Konst: big.NewInt(xt.Len())}
		case *types.Basic:
			return TV{V: &Sc{e.strLenIdx(x.V.(*Sc).T)}, T: intT}
		case *types.Map:
			return TV{V: &Sc{e.mapLen(env.cur, xt, x.V.(*Sc).T)}, T: intT}
		case *types.Pointer:
			if at, ok := xt.Elem().Underlying().(*types.Array); ok {
				return TV{Konst: big.NewInt(at.Len())}
			}
		}
		sfail("len of %s", x.T)
	case "forall", "exists":
		// forall(k, lo, hi, P): k int in [lo, hi)
		if len(c.Args) != 4 {
			sfail("%s(k, lo, hi, P) expected", fname)
		}
		kid, ok := c.Args[0].(*ast.Ident)
		if !ok {
			sfail("bound variable must be an identifier")
		}
		lo := e.toIdxTV(e.eval(env, c.Args[1]))
		hi := e.toIdxTV(e.eval(env, c.Args[2]))
		q, srt := e.boundVar(kid.Name, intT)
		e.vc.noDef++
		body := func() string {
			defer func() { e.vc.noDef-- }()
			return e.evalBool(env.with(kid.Name, TV{V: &Sc{q}, T: intT}), c.Args[3])
		}()
		rng := and(e.idxLe(lo, q), e.idxLt(q, hi))
		if fname == "forall" {
			return TV{V: &Sc{fmt.Sprintf("(forall ((%s %s)) %s)", q, srt, e.withPatterns(implies(rng, body), q))}, T: boolT}
		}
		ex := fmt.Sprintf("(exists ((%s %s)) %s)", q, srt, and(rng, body))
		// candidate witnesses: each instance implies the existential, so proving
		// the disjunction of the instances proves it (the goal is only made
		// stronger; used in postconditions of the function under verification)
		if len(env.witness) > 0 {
			ex = "false"
		}
		for _, w := range env.witness {
			e.vc.noDef++
			inst := func() string {
				defer func() { e.vc.noDef-- }()
				return e.evalBool(env.with(kid.Name, TV{V: &Sc{w}, T: intT}), c.Args[3])
			}()
			ex = or(ex, and(and(e.idxLe(lo, w), e.idxLt(w, hi)), inst))
		}
		return TV{V: &Sc{ex}, T: boolT}
	case "all", "some":
		// all(k, T, P): k ranges over the whole type T
		kid, ok := c.Args[0].(*ast.Ident)
		if !ok {
			sfail("bound variable must be an identifier")
		}
		t := e.resolveType(env, c.Args[1])
		if t == nil {
			sfail("unknown type %s", exprString(c.Args[1]))
		}
		lv := e.leaves(t)
		var qs []string
		var binders []string
		rng := "true"
		for _, l := range lv {
			q := e.vc.fresh("q_" + kid.Name)
			qs = append(qs, q)
			binders = append(binders, fmt.Sprintf("(%s %s)", q, l.Sort))
			if l.Kind == lkInt && !strings.HasPrefix(l.Sort, "(Array") {
				w, s, _ := intInfo(l.Typ)
				rng = and(rng, e.ar.InRange(q, w, s))
			}
		}
		bv := e.unflat(t, qs)
		e.vc.noDef++
		body := func() string {
			defer func() { e.vc.noDef-- }()
			return e.evalBool(env.with(kid.Name, TV{V: bv, T: t}), c.Args[2])
		}()
		if fname == "all" {
			return TV{V: &Sc{fmt.Sprintf("(forall (%s) %s)", strings.Join(binders, " "), implies(rng, body))}, T: boolT}
		}
		return TV{V: &Sc{fmt.Sprintf("(exists (%s) %s)", strings.Join(binders, " "), and(rng, body))}, T: boolT}
	case "fresh":
		x := e.eval(env, c.Args[0])
		ref := e.flatten(x.T, x.V)[0]
		if env.old == nil {
			sfail("fresh() outside a postcondition")
		}
		return TV{V: &Sc{fmt.Sprintf("(> %s %s)", ref, env.old.wm)}, T: boolT}
	case "allocated":
		// allocated(p): p is nil or an object that exists in the current state (its reference
		// is not above the allocation watermark) - a well-formedness fact about stored
		// pointers that the engine knows for loaded values but not under quantifiers
		x := e.eval(env, c.Args[0])
		ref := e.flatten(x.T, x.V)[0]
		return TV{V: &Sc{fmt.Sprintf("(<= %s %s)", ref, env.cur.wm)}, T: boolT}
	case "typeof":
		x := e.eval(env, c.Args[0])
		iv, ok := x.V.(*IfaceSV)
		if !ok {
			sfail("typeof on non-interface")
		}
		return TV{V: &Sc{iv.Tag}, T: typeTagT}
	case "typeid":
		t := e.resolveType(env, c.Args[0])
		if t == nil {
			sfail("unknown type %s", exprString(c.Args[0]))
		}
		return TV{V: &Sc{e.typeID(t)}, T: typeTagT}
	case "payload":
		// payload(x, T): the dynamic value of interface x viewed as T
		x := e.eval(env, c.Args[0])
		t := e.resolveType(env, c.Args[1])
		iv, ok := x.V.(*IfaceSV)
		if !ok || t == nil {
			sfail("payload(x, T)")
		}
		return TV{V: e.unbox(env.cur, t, iv.Val), T: t}
	case "ghost":
		id := c.Args[0].(*ast.Ident).Name
		g, ok := env.cur.ghost[id]
		if !ok {
			g = e.vc.declareNamed("G0_"+id, e.ghostSort(id))
			env.cur.ghost[id] = g
		}
		return TV{V: &Sc{g}, T: e.ghostType(id)}
	case "min", "max":
		a := e.eval(env, c.Args[0])
		b := e.eval(env, c.Args[1])
		if a.Konst != nil {
			a = e.materialize(a, b.T)
		}
		if b.Konst != nil {
			b = e.materialize(b, a.T)
		}
		_, s, _ := intInfo(a.T)
		as, bs := a.V.(*Sc).T, b.V.(*Sc).T
		op := token.LEQ
		if fname == "max" {
			op = token.GEQ
		}
		return TV{V: &Sc{ite(e.ar.Cmp(op, as, bs, s), as, bs)}, T: a.T}
	case "has":
		m := e.eval(env, c.Args[0])
		mt, ok := m.T.Underlying().(*types.Map)
		if !ok {
			sfail("has(m, k): m is not a map")
		}
		k := e.materialize(e.eval(env, c.Args[1]), mt.Key())
		return TV{V: &Sc{e.mapPresent(env.cur, mt, m.V.(*Sc).T, e.flatten(mt.Key(), k.V)[0])}, T: boolT}
	case "apply":
		// apply(f, x...): the result of calling the function value f (a closure the
		// caller passed in) on x; the closure body is executed symbolically on a
		// copy of the current state (its effects are discarded)
		if e.vc.noDef > 0 {
			sfail("apply() inside a quantifier")
		}
		f := e.eval(env, c.Args[0])
		fv, ok := f.V.(*FuncSV)
		if !ok || fv.Fn == nil {
			sfail("apply: the function value is not known at this call site")
		}
		var args []SV
		for i, a := range c.Args[1:] {
			tv := e.eval(env, a)
			pt := fv.Fn.Signature.Params().At(i).Type()
			tv = e.materialize(tv, pt)
			args = append(args, tv.V)
		}
		args = append(args, fv.Bind...)
		st := env.cur.clone()
		fr := &Frame{fn: fv.Fn, regs: map[ssa.Value]SV{}, cellOf: map[*ssa.Alloc]*Cell{}, depth: 2, prefix: "apply:"}
		rt := resultType(fv.Fn.Signature)
		e.vc.noOblige++
		rv := func() SV {
			defer func() { e.vc.noOblige-- }()
			return e.callStatic(fr, st, fv.Fn, args, rt, token.NoPos)
		}()
		return TV{V: rv, T: rt}
	case "asptr":
		// asptr(p, *T): the reference p (e.g. an unsafe.Pointer inside sync/atomic.Pointer) viewed as *T
		x := e.eval(env, c.Args[0])
		t := e.resolveType(env, c.Args[1])
		if t == nil {
			sfail("asptr: unknown type %s", exprString(c.Args[1]))
		}
		pt, ok := t.Underlying().(*types.Pointer)
		if !ok {
			sfail("asptr: %s is not a pointer type", t)
		}
		ref := e.flatten(x.T, x.V)[0]
		return TV{V: e.heapPtr(ref, pt.Elem()), T: t}
	case "baseof":
		// baseof(s): identity of the backing array of slice s (0 for nil)
		x := e.eval(env, c.Args[0])
		sv, ok := x.V.(*SliceSV)
		if !ok {
			sfail("baseof of non-slice")
		}
		return TV{V: &Sc{sv.Base}, T: mathIntT}
	case "offsetof":
		// offsetof(s): position of s[0] in its backing array
		x := e.eval(env, c.Args[0])
		sv, ok := x.V.(*SliceSV)
		if !ok {
			sfail("offsetof of non-slice")
		}
		return TV{V: &Sc{sv.Off}, T: mathIntT}
	case "mathint":
		return e.toMath(e.eval(env, c.Args[0]))
	case "unixnano":
		// unixnano(t): the instant t as mathematical nanoseconds since the epoch
		x := e.eval(env, c.Args[0])
		if !isTimeType(x.T) {
			sfail("unixnano of non-time value")
		}
		return TV{V: x.V, T: mathIntT}
	case "fits":
		// fits(m, x): the mathematical integer m is representable in the type of x
		m := e.toMath(e.eval(env, c.Args[0]))
		x := e.eval(env, c.Args[1])
		w, s, ok := intInfo(x.T)
		if !ok {
			sfail("fits: second argument is not an integer")
		}
		a := &Arith{mode: ModeInt}
		return TV{V: &Sc{a.InRange(m.V.(*Sc).T, w, s)}, T: boolT}
	case "popcount64", "popcount32":
		x := e.eval(env, c.Args[0])
		w := 64
		if fname == "popcount32" {
			w = 32
		}
		if x.Konst != nil {
			x = e.materialize(x, types.Typ[map[int]types.BasicKind{64: types.Uint64, 32: types.Uint32}[w]])
		}
		return TV{V: &Sc{e.popcount(x.V.(*Sc).T, w)}, T: intT}
	case "rotl64":
		x := e.eval(env, c.Args[0])
		k := e.eval(env, c.Args[1])
		return TV{V: &Sc{e.rotl64(x.V.(*Sc).T, e.toIdxTV(k))}, T: x.T}
	}
	// conversion to a named/basic type
	if t := e.resolveType(env, c.Fun); t != nil && len(c.Args) == 1 {
		return e.convertTV(e.eval(env, c.Args[0]), t)
	}
	// spec function
	if sf, ok := e.db.Specs[fname]; ok {
		return e.applySpec(env, sf, c.Args)
	}
	sfail("unknown function %s in contract", fname)
	return TV{}
}

var mathIntT = types.NewNamed(types.NewTypeName(token.NoPos, nil, "mathint", nil), types.Typ[types.Int64], nil)

func isMathInt(t types.Type) bool { return t == mathIntT }

func (e *Engine) toMath(tv TV) TV {
	if tv.Konst != nil {
		return TV{V: &Sc{intLit(tv.Konst)}, T: mathIntT}
	}
	if isMathInt(tv.T) {
		return tv
	}
	w, s, ok := intInfo(tv.T)
	if !ok {
		switch tv.T.Underlying().(type) {
		case *types.Pointer, *types.Map, *types.Chan:
			// object identity as a mathematical integer (for ghost references)
			return TV{V: &Sc{e.flatten(tv.T, tv.V)[0]}, T: mathIntT}
		}
		sfail("mathint of non-integer %s", tv.T)
	}
	return TV{V: &Sc{e.ar.ToMathInt(tv.V.(*Sc).T, w, s)}, T: mathIntT}
}

func (e *Engine) mathBinary(op token.Token, x, y TV) TV {
	xs, ys := e.toMath(x).V.(*Sc).T, e.toMath(y).V.(*Sc).T
	switch op {
	case token.ADD:
		return TV{V: &Sc{fmt.Sprintf("(+ %s %s)", xs, ys)}, T: mathIntT}
	case token.SUB:
		return TV{V: &Sc{fmt.Sprintf("(- %s %s)", xs, ys)}, T: mathIntT}
	case token.MUL:
		return TV{V: &Sc{fmt.Sprintf("(* %s %s)", xs, ys)}, T: mathIntT}
	case token.QUO:
		return TV{V: &Sc{fmt.Sprintf("(div %s %s)", xs, ys)}, T: mathIntT} // floor division (spec level)
	case token.REM:
		return TV{V: &Sc{fmt.Sprintf("(mod %s %s)", xs, ys)}, T: mathIntT}
	case token.EQL:
		return TV{V: &Sc{fmt.Sprintf("(= %s %s)", xs, ys)}, T: boolT}
	case token.NEQ:
		return TV{V: &Sc{fmt.Sprintf("(not (= %s %s))", xs, ys)}, T: boolT}
	case token.LSS:
		return TV{V: &Sc{fmt.Sprintf("(< %s %s)", xs, ys)}, T: boolT}
	case token.LEQ:
		return TV{V: &Sc{fmt.Sprintf("(<= %s %s)", xs, ys)}, T: boolT}
	case token.GTR:
		return TV{V: &Sc{fmt.Sprintf("(> %s %s)", xs, ys)}, T: boolT}
	case token.GEQ:
		return TV{V: &Sc{fmt.Sprintf("(>= %s %s)", xs, ys)}, T: boolT}
	}
	sfail("operator %s not available on mathint", op)
	return TV{}
}

// byteStreamT: ghost sequence of bytes indexed by mathematical position
var byteStreamT = types.NewNamed(types.NewTypeName(token.NoPos, nil, "bytestream", nil), types.Typ[types.Int64], nil)

// u32StreamT: ghost sequence of uint32 values
var u32StreamT = types.NewNamed(types.NewTypeName(token.NoPos, nil, "u32stream", nil), types.Typ[types.Int64], nil)

var typeTagT = types.NewNamed(types.NewTypeName(token.NoPos, nil, "typetag", nil), types.Typ[types.Uintptr], nil)

func (e *Engine) ghostType(name string) types.Type {
	if t, ok := e.ghostTypes[name]; ok {
		return t
	}
	return intT
}

func (e *Engine) convertTV(x TV, t types.Type) TV {
	if x.Konst != nil {
		return e.materialize(x, t)
	}
	fw, fs, fok := intInfo(x.T)
	tw, ts, tok := intInfo(t)
	if fok && tok {
		return TV{V: &Sc{e.ar.Convert(x.V.(*Sc).T, fw, fs, tw, ts)}, T: t}
	}
	if types.Identical(x.T.Underlying(), t.Underlying()) {
		return TV{V: x.V, T: t}
	}
	if tb, ok := t.Underlying().(*types.Basic); ok && tb.Info()&types.IsFloat != 0 && fok {
		return TV{V: &Sc{e.intToFloat(x.V.(*Sc).T, fw)}, T: t}
	}
	sfail("unsupported conversion %s -> %s in contract", x.T, t)
	return TV{}
}

// popcount as an exact sum of bits (bv mode only)
func (e *Engine) popcount(x string, w int) string {
	if e.ar.mode != ModeBV {
		// int encoding: an uninterpreted function with its range (the bit-level
		// meaning is only available to bv-mode functions and lemmas)
		name := fmt.Sprintf("popcnt%d", w)
		if !e.vc.specDecl[name] {
			e.vc.specDecl[name] = true
			e.vc.decls = append(e.vc.decls, fmt.Sprintf("(declare-fun %s (Int) Int)", name),
				fmt.Sprintf("(assert (forall ((x Int)) (! (and (<= 0 (%s x)) (<= (%s x) %d)) :pattern ((%s x)))))", name, name, w, name))
		}
		return fmt.Sprintf("(%s %s)", name, x)
	}
	name := fmt.Sprintf("popcount%d", w)
	if !e.vc.specDecl[name] {
		e.vc.specDecl[name] = true
		var parts []string
		for i := 0; i < w; i++ {
			parts = append(parts, fmt.Sprintf("((_ zero_extend 63) ((_ extract %d %d) x))", i, i))
		}
		body := parts[0]
		for _, p := range parts[1:] {
			body = fmt.Sprintf("(bvadd %s %s)", body, p)
		}
		e.vc.decls = append(e.vc.decls, fmt.Sprintf("(define-fun %s ((x (_ BitVec %d))) (_ BitVec 64) %s)", name, w, body))
	}
	return fmt.Sprintf("(%s %s)", name, x)
}

func (e *Engine) rotl64(x, k string) string {
	if e.ar.mode != ModeBV {
		sfail("rotl64 needs the bv encoding")
	}
	// rotate left by k mod 64 (k is a 64-bit signed int; Go: s := uint(k) & 63)
	s := fmt.Sprintf("(bvand %s (_ bv63 64))", k)
	return fmt.Sprintf("(bvor (bvshl %s %s) (bvlshr %s (bvsub (_ bv64 64) %s)))", x, s, x, s)
}

// ---- spec functions -----------------------------------------------------------

func (e *Engine) specSig(env *Env, sf *SpecFunc) ([]types.Type, types.Type) {
	// types are resolved in the package the spec function was declared for
	if sf.Pkg != "" {
		if p := e.spkgs[sf.Pkg]; p != nil && p.Pkg != env.pkg {
			env = &Env{vars: env.vars, pkg: p.Pkg, e: e, cur: env.cur, old: env.old}
		}
	}
	var pts []types.Type
	for _, pt := range sf.PTypes {
		t := e.resolveType(env, pt)
		if t == nil {
			sfail("spec %s: unknown parameter type %s", sf.Name, exprString(pt))
		}
		pts = append(pts, t)
	}
	rt := e.resolveType(env, sf.RType)
	if rt == nil {
		sfail("spec %s: unknown result type", sf.Name)
	}
	return pts, rt
}

func (e *Engine) declareSpec(env *Env, sf *SpecFunc) {
	if e.vc.specDecl[sf.Name] {
		return
	}
	e.vc.specDecl[sf.Name] = true
	pts, rt := e.specSig(env, sf)
	var psorts []string
	var binders []string
	benv := &Env{vars: map[string]TV{}, pkg: env.pkg, e: e, cur: env.cur}
	for i, pt := range pts {
		lv := e.leaves(pt)
		if len(lv) != 1 {
			if !(sf.Uninterp || sf.Body == nil) {
				sfail("spec %s: composite parameter needs an uninterpreted or macro spec", sf.Name)
			}
			for _, l := range lv {
				psorts = append(psorts, l.Sort)
			}
			continue
		}
		psorts = append(psorts, lv[0].Sort)
		pn := "sp_" + sf.Name + "_" + sf.PNames[i]
		binders = append(binders, fmt.Sprintf("(%s %s)", pn, lv[0].Sort))
		benv.vars[sf.PNames[i]] = TV{V: &Sc{pn}, T: pt}
	}
	rl := e.leaves(rt)
	if len(rl) != 1 {
		sfail("spec %s: composite result", sf.Name)
	}
	if sf.Uninterp || sf.Rec || sf.Body == nil {
		e.vc.decls = append(e.vc.decls, fmt.Sprintf("(declare-fun %s (%s) %s)", sf.Name, strings.Join(psorts, " "), rl[0].Sort))
		defer func() {
			for _, ax := range sf.Axioms {
				aenv := &Env{vars: map[string]TV{}, pkg: env.pkg, e: e, cur: env.cur}
				t, err := e.tryEvalBool(aenv, ax.Expr)
				if err != nil {
					sfail("axiom %q of %s: %v", ax.Text, sf.Name, err)
				}
				e.vc.decls = append(e.vc.decls, fmt.Sprintf("(assert %s)", t))
				e.vc.usedExt["axiom on "+sf.Name+": "+ax.Text] = true
			}
		}()
		if sf.Name == "instream" {
			for k := 0; k < replayElems; k++ {
				e.vc.addModelTerm(fmt.Sprintf("(instream %d)", k), fmt.Sprintf("instream:%d", k))
			}
		}
		if e.ar.mode == ModeInt && rl[0].Kind == lkInt && !sf.Uninterp {
			// result is in the range of its type (every spec function is typed)
		}
		if e.ar.mode == ModeInt && rl[0].Kind == lkInt {
			w, s, _ := intInfo(rt)
			var qs, as []string
			for i := range psorts {
				qs = append(qs, fmt.Sprintf("(a%d %s)", i, psorts[i]))
				as = append(as, fmt.Sprintf("a%d", i))
			}
			app := fmt.Sprintf("(%s %s)", sf.Name, strings.Join(as, " "))
			if len(psorts) == 0 {
				app = sf.Name
				e.vc.decls = append(e.vc.decls, fmt.Sprintf("(assert %s)", e.ar.InRange(app, w, s)))
			} else {
				e.vc.decls = append(e.vc.decls, fmt.Sprintf("(assert (forall (%s) (! %s :pattern (%s))))", strings.Join(qs, " "), e.ar.InRange(app, w, s), app))
			}
		}
		return
	}
	// A body that cannot be expressed in the current encoding (bit-level
	// operators in int mode) leaves the function uninterpreted here: sound, the
	// bit-level meaning is then only available to bv-mode functions and lemmas.
	bt, ok := func() (t string, ok bool) {
		nd := e.vc.noDef
		defer func() {
			if r := recover(); r != nil {
				e.vc.noDef = nd
				if _, isSpec := r.(specErr); !isSpec {
					panic(r)
				}
				ok = false
			}
		}()
		e.vc.noDef++
		body := e.eval(benv, sf.Body)
		e.vc.noDef--
		body = e.materialize(body, rt)
		return e.flatten(rt, body.V)[0], true
	}()
	if !ok {
		e.vc.decls = append(e.vc.decls, fmt.Sprintf("(declare-fun %s (%s) %s)", sf.Name, strings.Join(psorts, " "), rl[0].Sort))
		e.vc.note("spec " + sf.Name + " is uninterpreted in the " + e.ar.mode.String() + " encoding")
		return
	}
	e.vc.decls = append(e.vc.decls, fmt.Sprintf("(define-fun %s (%s) %s %s)", sf.Name, strings.Join(binders, " "), rl[0].Sort, bt))
}

func (e *Engine) applySpec(env *Env, sf *SpecFunc, args []ast.Expr) TV {
	if len(args) != len(sf.PNames) {
		sfail("spec %s: want %d args", sf.Name, len(sf.PNames))
	}
	if sf.Macro {
		// macro: the body is evaluated with the parameters bound to the argument
		// values (any shape: slices, pointers); nothing is declared to the solver
		benv := &Env{vars: map[string]TV{}, pkg: env.pkg, e: e, cur: env.cur, old: env.old}
		for i, a := range args {
			benv.vars[sf.PNames[i]] = e.eval(env, a)
		}
		return e.eval(benv, sf.Body)
	}
	e.declareSpec(env, sf)
	pts, rt := e.specSig(env, sf)
	var as []string
	for i, a := range args {
		tv := e.materialize(e.eval(env, a), pts[i])
		if isUntypedNil(tv) {
			tv = TV{V: e.zero(pts[i]), T: pts[i]}
		}
		if !types.Identical(tv.T.Underlying(), pts[i].Underlying()) {
			tv = e.convertTV(tv, pts[i])
		}
		as = append(as, e.flatten(pts[i], tv.V)...)
	}
	if len(as) == 0 {
		return TV{V: &Sc{sf.Name}, T: rt}
	}
	return TV{V: &Sc{fmt.Sprintf("(%s %s)", sf.Name, strings.Join(as, " "))}, T: rt}
}

// unfoldSpec returns the instance of the defining equation of a recursive spec
// function at the given argument expressions.
func (e *Engine) unfoldSpec(env *Env, call *ast.CallExpr) string {
	id, ok := call.Fun.(*ast.Ident)
	if !ok {
		sfail("unfold needs f(args)")
	}
	sf, ok := e.db.Specs[id.Name]
	if !ok || sf.Body == nil {
		sfail("unfold: %s is not a defined spec function", id.Name)
	}
	pts, rt := e.specSig(env, sf)
	lhs := e.applySpec(env, sf, call.Args)
	benv := &Env{vars: map[string]TV{}, pkg: env.pkg, e: e, cur: env.cur}
	for i, a := range call.Args {
		tv := e.materialize(e.eval(env, a), pts[i])
		benv.vars[sf.PNames[i]] = tv
	}
	body := e.materialize(e.eval(benv, sf.Body), rt)
	return fmt.Sprintf("(= %s %s)", e.flatten(rt, lhs.V)[0], e.flatten(rt, body.V)[0])
}

// withPatterns attaches explicit triggers to a quantifier body: every array
// read or stream/string access whose index mentions the bound variable is an
// alternative pattern. Without them the solvers pick triggers through the
// arithmetic of the index and instantiate erratically.
func (e *Engine) withPatterns(body, q string) string {
	var pats []string
	for _, p := range findPatterns(body, q) {
		if e.vc.patternSafe(p, 0) {
			pats = append(pats, p)
		}
	}
	if len(pats) == 0 {
		return body
	}
	var b strings.Builder
	b.WriteString("(! ")
	b.WriteString(body)
	for _, p := range pats {
		b.WriteString(" :pattern (")
		b.WriteString(p)
		b.WriteString(")")
	}
	b.WriteString(")")
	return b.String()
}

func findPatterns(body, q string) []string {
	var out []string
	seen := map[string]bool{}
	heads := []string{"(select ", "(strat ", "(instream "}
	for i := 0; i < len(body); i++ {
		for _, h := range heads {
			if !strings.HasPrefix(body[i:], h) {
				continue
			}
			// balanced term starting at i
			d := 0
			j := i
			for ; j < len(body); j++ {
				if body[j] == '(' {
					d++
				} else if body[j] == ')' {
					d--
					if d == 0 {
						break
					}
				}
			}
			if j >= len(body) {
				continue
			}
			t := body[i : j+1]
			if !containsToken(t, q) || strings.Contains(t, "(forall ") || strings.Contains(t, "(exists ") || strings.Contains(t, "(ite ") || mentionsOtherBound(t, q) {
				continue
			}
			// prefer the innermost access: skip if an inner access with q exists that is a proper subterm and this one only wraps it as the array argument
			if seen[t] {
				continue
			}
			seen[t] = true
			out = append(out, t)
		}
	}
	// keep the smallest few (inner reads are better triggers than reads of reads)
	sort.Slice(out, func(a, b int) bool { return len(out[a]) < len(out[b]) })
	var keep []string
	for _, t := range out {
		sub := false
		for _, k := range keep {
			if strings.Contains(t, k) {
				sub = true // t contains an already chosen smaller pattern
			}
		}
		if !sub {
			keep = append(keep, t)
		}
		if len(keep) >= 4 {
			break
		}
	}
	return keep
}

func containsToken(s, tok string) bool {
	for i := 0; i+len(tok) <= len(s); i++ {
		if s[i:i+len(tok)] == tok {
			before := i == 0 || s[i-1] == ' ' || s[i-1] == '('
			after := i+len(tok) == len(s) || s[i+len(tok)] == ' ' || s[i+len(tok)] == ')'
			if before && after {
				return true
			}
		}
	}
	return false
}

var boundVarRe = regexp.MustCompile(`q_[A-Za-z0-9_]*![0-9]+`)

// mentionsOtherBound reports whether t mentions a bound variable other than q
// (such a term cannot be a pattern of q's quantifier).
func mentionsOtherBound(t, q string) bool {
	for _, m := range boundVarRe.FindAllString(t, -1) {
		if m != q {
			return true
		}
	}
	return false
}
